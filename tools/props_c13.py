# C13 — Applying a quick fix yields valid code and removes the reported problem.
# Also: text_rules_check(ctx) — prefer-ascii / no-irregular-whitespace models vs the rules (text part of C03/C09).
import collections, json, os, random, re, sys
import lib, pipe
from lib import log
from props import register
sys.path.insert(0, os.path.join(lib.ROOT, "translate"))
import corpus as corpus_mod

FIX_RULES = ["jsx-curly-braces", "jsx-no-unescaped-entities", "jsx-boolean-value", "jsx-props-no-spread-multi",
             "no-window", "no-window-prefix", "no-process-global", "no-node-globals", "verbatim-module-syntax"]

# Defect classes of this property that are still present in /repo (listed in /verif/known_findings.json by the main
# engineer; this dict is documentation only - the verdict uses known_findings.json).  The six `fix:` commits of /repo
# (jsx-curly-braces quote, jsx-props-no-spread-multi range, jsx-boolean-value glue, verbatim-module-syntax type keyword
# and panic, node: import placement) removed every other class that `cause()` below can still name.
PROPOSED_KNOWN = {
    "C13.no-process-global:new-syntax-diagnostic:import-makes-script-a-module":
        "no-process-global: adding an import declaration turns a sloppy-mode script into a module; script-only syntax in it (with, legacy octal, `yield` as a name) becomes a syntax error reported by the parser",
    "C13.no-node-globals:new-syntax-diagnostic:import-makes-script-a-module":
        "no-node-globals: same effect of the inserted import declaration on script-only syntax",
}


# ---------------------------------------------------------------------------------------------- helpers
class T:
    """text builder that tracks UTF-8 byte offsets"""
    def __init__(self):
        self.parts, self.n = [], 0

    def add(self, s):
        a = self.n
        self.parts.append(s)
        self.n += len(s.encode("utf8"))
        return a, self.n

    def src(self):
        return "".join(self.parts)


def char_bounds(src):
    b, o = {0}, 0
    for ch in src:
        o += len(ch.encode("utf8"))
        b.add(o)
    return b


def check_changes(src, changes):
    """C03 part of the property: in bounds, on char boundaries, start<=end, pairwise non-overlapping."""
    n = len(src.encode("utf8"))
    bounds = char_bounds(src)
    bad = []
    last = -1
    for c in sorted(changes, key=lambda c: (c["s"], c["e"])):
        if not (0 <= c["s"] <= c["e"] <= n):
            bad.append("change-out-of-bounds")
        elif c["s"] not in bounds or c["e"] not in bounds:
            bad.append("change-off-char-boundary")
        if c["s"] < last:
            bad.append("changes-overlap")
        last = max(last, c["e"])
    return bad


def apply_changes(src, changes):
    """python implementation of deno_ast::apply_text_changes on UTF-8 bytes (sorted by (start,end)); returns text
    (undecodable bytes replaced) or None if the changes are not applicable."""
    b = src.encode("utf8")
    out, last = [], 0
    for c in sorted(changes, key=lambda c: (c["s"], c["e"])):
        if c["s"] > c["e"] or c["s"] < last or c["e"] > len(b):
            return None
        out.append(b[last:c["s"]]); out.append(c["t"].encode("utf8")); last = c["e"]
    out.append(b[last:])
    return b"".join(out)


def enc_bytes(b):
    return "%d %s" % (len(b), " ".join(map(str, b))) if b else "0"


def status(r):
    if r is None:
        return "none"
    for k in ("ok", "parse_error", "panic", "crash"):
        if k in r:
            return k
    return "other"


def rule_diags(res, rule):
    return [d for d in res["ok"] if d["code"] == rule]


def fixable(ds):
    return [d for d in ds if d["fixes"]]


def dkey(d):
    return (d["start"], d["end"], d["msg"])


# ---------------------------------------------------------------------------------------------- cause classifiers
WS1 = " \t\n\r\x0b\x0c"


def cause(rule, what, prog, diag, fix, fixed_text):
    """a SPECIFIC cause tag so that a different defect of the same rule gets a different class"""
    src, media = prog["src"], prog["media"]
    b = src.encode("utf8")
    if rule == "jsx-curly-braces":
        t = fix["changes"][0]["t"]
        if len(t) >= 2 and t[0] == '"' and t[-1] == '"' and '"' in t[1:-1]:
            return "double-quote-in-value"
    if rule == "jsx-props-no-spread-multi" and what in ("unparsable", "change-off-char-boundary"):
        s, e = diag["start"], diag["end"]
        c = fix["changes"][0]
        if c["s"] == s - 2 and c["e"] == e + 1:
            before = b[max(0, s - 2):s]
            after = b[e:e + 1]
            if not (len(before) == 2 and chr(before[0]) in WS1 and before[1:2] == b"{" and after == b"}"):
                return "fixed-offsets-around-spread"
    if rule == "jsx-boolean-value" and what == "unparsable":
        c = fix["changes"][0]
        nxt = b[c["e"]:c["e"] + 1].decode("utf8", "replace")
        if c["t"] == "" and nxt and not nxt.isspace() and nxt not in "/>{":
            return "attribute-glued-to-next"
    if rule == "verbatim-module-syntax":
        c = fix["changes"][0]
        if what == "unparsable" and media in ("js", "jsx", "mjs", "cjs"):
            return "type-keyword-in-javascript"
        if what == "unparsable" and c["t"] == "type " and b[c["s"]:c["s"] + 1] == b"*":
            return "type-before-namespace-specifier"
        if what == "unparsable" and c["t"] == "type " and b[c["s"]:c["s"] + 1] in (b'"', b"'"):
            return "type-before-string-named-specifier"
        if c["t"] == "type " and len(fix["changes"]) == 1:
            import re
            before = re.sub(rb"/\*.*?\*/", b"", b[:c["s"]], flags=re.S).rstrip()
            if before.endswith(b"import"):
                return "type-before-default-specifier"
    if rule in ("no-process-global", "no-node-globals"):
        c = fix["changes"][0]
        if what == "unparsable" and c["t"] == "globalThis" and media in ("jsx", "tsx") and b[c["s"] - 1:c["s"]] in (b"<", b"/") and b[c["e"]:c["e"] + 1] == b".":
            return "jsx-member-tag-pair"        # <global.X></global.X>: the two tag names are fixed one at a time
        is_import = c["t"].lstrip("\n").lstrip(" ").startswith("import ")
        if what == "unparsable" and is_import and media == "cjs":
            return "import-into-commonjs"
        if what in ("not-fewer", "still-reported") and is_import:
            if b[diag["start"] - 1:diag["start"]] in (b"<", b"/") and media in ("jsx", "tsx"):
                return "jsx-intrinsic-element-name"
            if c["t"].startswith("\n") and "declare module" in src[:len(b[:c["s"]].decode("utf8", "replace"))]:
                return "import-inside-nested-module-block"
        if what == "new-syntax-diagnostic" and is_import and prog.get("script_only"):
            return "import-makes-script-a-module"
        if what == "new-syntax-diagnostic" and is_import and media in ("js", "jsx", "cjs", "mjs") and "import" not in src and "export" not in src:
            return "import-makes-script-a-module"
    return "other"


# ---------------------------------------------------------------------------------------------- generators
# A generated program: {"src", "media", "rule", "sites": [...] | None}.  A site is what the MODEL predicts:
# {"ds","de": diagnostic range, "req": [request lines for `text build`], "dec": how to read the answers}
# (sites None = no prediction, oracle only).
VAL_ATOMS = ["a", "b", "xy", " ", "é", "漢", "😀", "&amp;", "&", "'", '"', "\\", "\n", "/", "*", "//", "{", "}", "<", ">", "-", "0", " ", "\t"]


def rand_value(rng, quotes=True):
    k = rng.random()
    n = 0 if k < 0.06 else rng.randint(1, 5)
    atoms = VAL_ATOMS if quotes else [a for a in VAL_ATOMS if a not in "'\""]
    w = [4 if a.isalnum() else 1 for a in atoms]
    return "".join(rng.choices(atoms, w, k=n))


def js_str(rng, v):
    q = rng.choice("'\"")
    out = []
    for ch in v:
        if ch == q or ch == "\\":
            out.append("\\" + ch)
        elif ch == "\n":
            out.append("\\n")
        elif ch == "\t" and rng.random() < 0.5:
            out.append("\\t")
        elif ch in "{}<>&" and rng.random() < 0.4:
            # the characters the rules look for, present in the VALUE only through an escape sequence
            out.append(rng.choice(["\\x%02X", "\\u%04x", "\\u{%x}"]) % ord(ch))
        elif ch.isalnum() and ord(ch) < 128 and rng.random() < 0.08:
            out.append("\\x%02x" % ord(ch))
        elif rng.random() < 0.05:
            out.append("\\u{%x}" % ord(ch))
        else:
            out.append(ch)
    return q + "".join(out) + q


def ignore_chars(v):
    return any(c in v for c in "{}<>")


def req_change(line):
    return {"req": line, "dec": "change"}


# ---- jsx-curly-braces
def g_curly_element(rng, t, sites, pending, depth, parent_is_element=True):
    """emits one element; `pending` collects (children descriptor lists) resolved when the source is complete"""
    frag = depth > 0 and rng.random() < 0.1
    tag = "" if frag else rng.choice(["a", "div", "Foo", "x.y"])
    t.add("<" + tag)
    if not frag:
        for _ in range(rng.choice([0, 1, 1, 2, 3])):
            t.add(rng.choice([" ", "  ", "\n  "]))
            t.add(rng.choice(["b", "c-d", "e:f", "g"]))
            k = rng.random()
            if k < 0.5:
                t.add(rng.choice(["=", " = "]))
                v = rand_value(rng)
                s, _ = t.add("{"); t.add(rng.choice(["", " "])); t.add(js_str(rng, v)); t.add(rng.choice(["", " "])); _, e = t.add("}")
                sites.append({"ds": s, "de": e, "reqs": [{"req": "1 %d %d %s" % (s, e, pipe.enc_str(v)), "dec": "optchange_nofix"}]})
            elif k < 0.62 and depth < 2:
                t.add("=")
                s = t.n
                mark = len(t.parts)
                was_frag = g_curly_element(rng, t, sites, pending, depth + 1)
                e = t.n
                el = "".join(t.parts[mark:])
                if not was_frag:        # JSXAttrValue::JSXFragment is not reported
                    sites.append({"ds": s, "de": e, "reqs": [req_change("3 %d %d %s" % (s, e, pipe.enc_str(el)))]})
            elif k < 0.72:
                t.add('="l\'it"')
            elif k < 0.82:
                t.add("={1}")
    if not frag and rng.random() < 0.3:
        t.add(rng.choice([" />", "/>"]))
        return False
    t.add(">")
    kids = []
    last_text = False
    for _ in range(rng.choice([0, 1, 2, 3, 4])):
        k = rng.random()
        if k < 0.5:
            v = rand_value(rng)
            s, _ = t.add("{"); t.add(rng.choice(["", " "])); t.add(js_str(rng, v)); t.add(rng.choice(["", " "])); _, e = t.add("}")
            kids.append(("str", s, e, v)); last_text = False
        elif k < 0.62:
            s, e = t.add("{x}"); kids.append(("expr", s, e, None)); last_text = False
        elif k < 0.75 and depth < 2:
            s = t.n
            g_curly_element(rng, t, sites, pending, depth + 1)
            kids.append(("el", s, t.n, None)); last_text = False
        elif not last_text:
            s, e = t.add(rng.choice(["foo", " ", "\n", "\n  ", "bar\n", " é "])); kids.append(("text", s, e, None)); last_text = True
    t.add("</" + tag + ">")
    if not frag:
        pending.append(kids)
    return frag


def gen_curly(rng):
    t, sites, pending = T(), [], []
    pre = rng.choice(["", "", "// é漢😀\n", "const v = ", "/* c */ ", "\r\n"])
    t.add(pre)
    g_curly_element(rng, t, sites, pending, 0)
    t.add(rng.choice(["", ";", ";\n"]))
    src = t.src()
    b = src.encode("utf8")
    line = lambda pos: b[:pos].count(b"\n")
    for kids in pending:
        skip = 0
        for i, (kind, s, e, v) in enumerate(kids):
            if skip > 0:
                skip -= 1
                continue
            if kind != "str" or ignore_chars(v):
                continue
            if i + 1 < len(kids) and line(e) < line(kids[i + 1][2]):
                skip += 1
                continue
            sites.append({"ds": s, "de": e, "reqs": [{"req": "2 %d %d %s" % (s, e, pipe.enc_str(v)), "dec": "optchange"}]})
    if "\r\n" in pre:
        src = src   # CRLF only in the prefix (a JSX text with CR would change nothing for the rule either)
    return {"src": src, "media": rng.choice(["jsx", "tsx"]), "rule": "jsx-curly-braces", "sites": sites}


# ---- jsx-no-unescaped-entities
TEXT_ATOMS = ["a", "b c", " ", ">", "}", ">}", "é", "漢", "😀", "&gt;", "&#125;", "&", "\n", "\r\n", "'", '"', "//", "/*", ")"]


def g_entities_element(rng, t, sites, depth):
    frag = depth > 0 and rng.random() < 0.15
    tag = "" if frag else rng.choice(["div", "p", "X"])
    t.add("<" + tag + ">")
    last_text = False
    for _ in range(rng.choice([1, 1, 2, 3, 4])):
        k = rng.random()
        if k < 0.55 and not last_text:
            txt = "".join(rng.choices(TEXT_ATOMS, [3, 2, 2, 3, 3, 1, 1, 1, 1, 1, 1, 1, 1, 1, 1, 1, 1, 1, 1], k=rng.randint(1, 5)))
            s, e = t.add(txt)
            if not frag:
                sites.append({"ds": s, "de": e, "reqs": [{"req": "4 %d %d %s" % (s, e, pipe.enc_str(txt)), "dec": "entities"}]})
            last_text = True
        elif k < 0.75:
            t.add(rng.choice(['{">"}', "{x}", '{"}"}'])); last_text = False
        elif depth < 2:
            g_entities_element(rng, t, sites, depth + 1); last_text = False
    t.add("</" + tag + ">")


def gen_entities(rng):
    t, sites = T(), []
    t.add(rng.choice(["", "// 漢\n", "x = ", "/* > } */"]))
    g_entities_element(rng, t, sites, 0)
    t.add(rng.choice(["", ";"]))
    return {"src": t.src(), "media": rng.choice(["jsx", "tsx"]), "rule": "jsx-no-unescaped-entities", "sites": sites}


# ---- jsx-boolean-value
def gen_boolean(rng):
    t, sites = T(), []
    t.add(rng.choice(["", "// é\n", "y = "]))
    t.add("<" + rng.choice(["Foo", "a"]))
    for _ in range(rng.randint(1, 4)):
        t.add(rng.choice([" ", "  ", "\n", ""]) if t.parts[-1].endswith("}") or t.parts[-1].endswith('"') else rng.choice([" ", "\n "]))
        k = rng.random()
        if k < 0.15:
            t.add("{...x}")
            continue
        _, name_end = t.add(rng.choice(["foo", "a-b", "c:d", "é" if False else "bar"]))
        if k < 0.25:
            continue
        if k < 0.35:
            t.add(rng.choice(['="s"', "={false}", "={1}", "={/* c */ true}", "={true /* c */}", "={!0}"]))
            continue
        t.add(rng.choice(["", " ", "/*c*/", " /* é漢 */ ", "\n"]))
        eq_s, _ = t.add("=")
        t.add(rng.choice(["", " ", "/*c*/", "\n"]))
        s, _ = t.add("{"); t.add(rng.choice(["", " ", "  "])); t.add("true"); t.add(rng.choice(["", " "])); _, e = t.add("}")
        sites.append({"ds": s, "de": e, "reqs": [], "bool": (name_end, eq_s, e)})
    t.add(rng.choice([" />", "/>", "></Foo>" if t.parts[1] == "<Foo" else "></a>"]))
    b = t.src().encode("utf8")
    for st in sites:       # the character behind the container is only known now
        ne, qs, e = st["bool"]
        nxt = b[e:].decode("utf8")[:1]
        st["reqs"] = [req_change("5 1 %d %d %d %s" % (ne, qs, e, pipe.enc_opt(nxt or None, lambda c: str(ord(c)))))]
    return {"src": t.src(), "media": rng.choice(["jsx", "tsx"]), "rule": "jsx-boolean-value", "sites": sites}


# ---- jsx-props-no-spread-multi
def gen_spread(rng):
    t, sites = T(), []
    t.add(rng.choice(["", "// 漢\n", "z = "]))
    t.add("<" + rng.choice(["a", "Foo"]))
    seen = set()
    nice = rng.random() < 0.5          # half of the programs use only the layout the rule's tests use
    n = rng.randint(2, 5)
    for i in range(n):
        seps = [" "] if nice else [" ", " ", "", "\n", "\t", "  ", "/*c*/", " /*c*/ ", "　", "\r\n", " \n "]
        plain = rng.random() < 0.25
        if i:
            sep = rng.choice(seps)
            if plain and sep == "" and not t.parts[-1].endswith("}"):
                sep = " "
            t.add(sep)
        else:
            t.add(" " if nice or plain else rng.choice([" ", "", "\n"]))
        if plain:
            t.add(rng.choice(["b", "b={1}", 'c="d"', "b={{}}"]))
            continue
        prev_end = t.n - len(t.parts[-1].encode("utf8"))   # end of the token in front of the separator
        ex = rng.choice(["x", "x", "x", "y", "x.y", "f(a)", "é"])
        g1 = "" if nice else rng.choice(["", "", " ", "/*c*/"])
        g2 = "" if nice else rng.choice(["", "", " ", "\n"])
        lb_s, _ = t.add("{" + g1)
        s, _ = t.add("...")
        _, e = t.add(ex)
        _, rb_end = t.add(g2 + "}")
        if ex in seen:      # tokens around the spread node: `{` and `}`; the token in front of `{` ends at prev_end
            sites.append({"ds": s, "de": e, "reqs": [{"req": "6 1 1 %d %d 1 1 %d %d 1 %d" % (lb_s, lb_s + 1, rb_end - 1, rb_end, prev_end),
                                                      "dec": "optchange_nofix"}]})
        seen.add(ex)
    t.add(rng.choice([" />", "/>"]))
    return {"src": t.src(), "media": rng.choice(["jsx", "tsx"]), "rule": "jsx-props-no-spread-multi", "sites": sites}


# ---- no-window / no-window-prefix: templates, `@` = a flagged `window` identifier, ⟦ ⟧ = diagnostic range, # = unflagged
DENY = ["fetch", "console", "crypto", "setTimeout", "Deno", "name", "self", "navigator", "URL", "addEventListener"]
ALLOW = ["onload", "alert", "closed", "localStorage", "location", "foo", "document"]
NW_FLAGGED = ["@.P;", "@.P();", '@["P"];', "@?.P;", "@[`P`];", "@.P.Q;", "typeof @.P;", "@.P = 1;", "@;", "new @.P();", "x = @.P;", "f(@.P);", "@[0];", "if (@.P) {}"]
NW_PLAIN = ["f(#);", "(#);", "# = 1;", "x.window;", "x.window.y;", "({window: 1});", "y = #;", "let q = 1;", "// window.a\n", "'window.a';"]
NWP_FLAGGED = ["⟦@.D⟧;", "⟦@.D⟧();", '⟦@["D"]⟧;', "⟦@?.D⟧;", "⟦@[`D`]⟧;", "⟦@.D⟧ = 1;", "new ⟦@.D⟧();", "x = ⟦@.D⟧;", "f(⟦@.D⟧);", "⟦@.D⟧().x;"]
NWP_PLAIN = ["#.A;", "#.A();", '#["A"];', "#.D.x;", "#.D.x();", "#;", "f(#);", "x.window.D;", "#[D];", "#[`${D}`];", "self.D;", "globalThis.D();"]
SHADOW_WRAPS = [("function f(window) { ", " }"), ("{ let window = 1; ", " }"), ("((window) => { ", " });"), ("try {} catch (window) { ", " }"),
                ("class C { m() { var window; ", " } }"), ("function g() { const window = 2; ", " }")]
TOP_SHADOW = ["var window = 1;", "function window() {}", "import window from 'w';", "class window {}", "let window;", "{ var window; }", "const { window } = x;"]
SEPS = [" ", "\n", "\n\n", "\r\n", " /* é漢😀 */ ", "\n// c\n"]


def expand(rng, tpl, flagged, t, sites, mk_req):
    tpl = tpl.replace("P", rng.choice(DENY + ALLOW)).replace("Q", "q").replace("D", rng.choice(DENY)).replace("A", rng.choice(ALLOW))
    ds = None
    i = 0
    while i < len(tpl):
        ch = tpl[i]
        if ch == "⟦":
            ds = t.n
        elif ch == "⟧":
            if flagged and site_tmp:
                site_tmp[-1]["de"] = t.n
        elif ch in "@#":
            s, e = t.add("window")
            if ch == "@" and flagged:
                st = {"ds": ds if ds is not None else s, "de": e, "reqs": [req_change(mk_req(s, e))]}
                sites.append(st)
                site_tmp.append(st)
        else:
            j = i
            while j < len(tpl) and tpl[j] not in "⟦⟧@#":
                j += 1
            t.add(tpl[i:j])
            i = j
            continue
        i += 1


site_tmp = []


def gen_window_like(rng, rule, flagged_tpls, plain_tpls):
    t, sites = T(), []
    del site_tmp[:]
    t.add(rng.choice(["", "", "// é漢😀 header\n", "#!/usr/bin/env deno\n", "/* window.fetch */\n", "\n\n"]))
    top_shadow = rng.random() < 0.12
    stmts = []
    for _ in range(rng.randint(1, 5)):
        k = rng.random()
        if k < 0.55:
            stmts.append(("f", rng.choice(flagged_tpls)))
        elif k < 0.8:
            stmts.append(("p", rng.choice(plain_tpls)))
        else:
            w = rng.choice(SHADOW_WRAPS)
            stmts.append(("w", w, rng.choice(flagged_tpls + plain_tpls)))
    if top_shadow:
        stmts.insert(rng.randrange(len(stmts) + 1), ("p", rng.choice(TOP_SHADOW)))
    mk = lambda s, e: "7 %d %d" % (s, e)
    for st in stmts:
        if st[0] == "w":
            t.add(st[1][0]); expand(rng, st[2], False, t, sites, mk); t.add(st[1][1])
        else:
            expand(rng, st[1], st[0] == "f" and not top_shadow, t, sites, mk)
        t.add(rng.choice(SEPS))
    media = "ts" if not any("import" in str(s) for s in stmts) and rng.random() < 0.5 else rng.choice(["ts", "js", "mjs", "tsx"])
    return {"src": t.src(), "media": media, "rule": rule, "sites": sites}


def gen_no_window(rng):
    return gen_window_like(rng, "no-window", NW_FLAGGED, NW_PLAIN)


def gen_no_window_prefix(rng):
    return gen_window_like(rng, "no-window-prefix", NWP_FLAGGED, NWP_PLAIN)


# ---- no-process-global / no-node-globals
IMPORTS = ["import a from 'b';", "import {x as y} from \"z\"", "import 'side';", "import * as n from 'm';", "import d, { e } from 'é漢'", "import type { Q } from 'q';"]
G_FLAGGED = ["@.env.X;", "@.exit(1);", "var e1 = @;", "typeof @;", "f(@);", "({ @ });", "@?.x;", "`${@}`;", "if (@) {}", "x = [@, 1];", "@;", "new Foo(@.a);"]
G_PLAIN = ["x.NAME;", "({NAME: 1});", "lbl: for(;;) break lbl;", "'NAME';", "// NAME\n", "q = 1;", "class K { NAME = 1; m() { return this.NAME; } }"]
G_SHADOW_WRAPS = [("function f(NAME) { ", " }"), ("{ const NAME = 1; ", " }"), ("try {} catch (NAME) { ", " }"), ("((NAME) => { ", " });"),
                  ("function g() { var NAME; ", " }")]
G_TOP_SHADOW = ["var NAME = 1;", "function NAME() {}", "import NAME from 'p';", "const NAME = {};", "{ var NAME; }", "import { NAME } from 'p';", "class NAME {}"]
NODE_NAMES = ["Buffer", "global", "setImmediate", "clearImmediate"]
SCRIPT_ONLY = ["with (o) { q; }", "x = 010;", "var yield = 1;"]


def gen_global_like(rng, rule, names, req_of, dec):
    t, sites = T(), []
    media = rng.choice(["ts", "ts", "js", "mjs", "tsx", "jsx", "mts", "cts", "cjs"])
    cjs = media == "cjs"
    t.add(rng.choice(["", "", "// A copyright notice é漢😀\n\n", "#!/usr/bin/env node\n", "/* header */ ", "\n", "\r\n"]))
    code_start = [None]
    last_import = [None]
    top_shadow = rng.choice(names) if rng.random() < 0.1 else None

    def stmt_start():
        if code_start[0] is None:
            code_start[0] = t.n

    def emit(tpl, flagged, name):
        stmt_start()
        tpl = tpl.replace("NAME", name)
        for k, piece in enumerate(tpl.split("@")):
            if k:
                s, e = t.add(name)
                if flagged and name != top_shadow:
                    sites.append({"ds": s, "de": e, "reqs": [{"req": req_of(cjs, name, last_import[0], s, e), "dec": dec}]})
            t.add(piece)
    items = []
    for _ in range(0 if cjs else rng.choice([0, 0, 1, 2, 3])):
        items.append(("i", rng.choice(IMPORTS[:5] if media in ("js", "mjs", "jsx") else IMPORTS)))
    if media in ("ts", "mts") and rng.random() < 0.15:
        # an import nested in an ambient module block is not a place to put the new import behind
        items.insert(rng.randrange(len(items) + 1), ("p", "declare module 'dm' { import q9 from 'q'; }"))
    if rng.random() < 0.2:
        items.insert(0, ("p", '"use strict";'))
    for _ in range(rng.randint(1, 5)):
        k = rng.random()
        name = rng.choice(names)
        if k < 0.55:
            items.append(("f", rng.choice(G_FLAGGED), name))
        elif k < 0.75:
            if media in ("jsx", "tsx") and name[0].islower() and rng.random() < 0.3:
                items.append(("p", "<%s />;" % name))          # intrinsic element name, not a reference
            else:
                items.append(("p", rng.choice(G_PLAIN).replace("NAME", name)))
        elif k < 0.9:
            items.append(("w", rng.choice(G_SHADOW_WRAPS), rng.choice(G_FLAGGED + G_PLAIN), name))
        elif not cjs:
            items.append(("i", rng.choice(IMPORTS[:5])))
    if top_shadow:
        items.insert(rng.randrange(len(items) + 1), ("p", rng.choice([x for x in G_TOP_SHADOW if not (cjs and x.startswith("import"))]).replace("NAME", top_shadow)))
    for it in items:
        if it[0] == "i":
            stmt_start()
            s, e = t.add(it[1])
            t.add(rng.choice(["\n", " ", ";\n"]) if it[1].endswith(";") else rng.choice(["\n", ";\n", "; "]))
            # the import declaration ends at its `;` if there is one
            src_now = t.src().encode("utf8")
            end = e + 1 if (not it[1].endswith(";") and src_now[e:e + 1] == b";") else e
            last_import[0] = end
        elif it[0] == "w":
            stmt_start()
            t.add(it[1][0].replace("NAME", it[3])); emit(it[2], False, it[3]); t.add(it[1][1])
            t.add(rng.choice(SEPS))
        elif it[0] == "f":
            emit(it[1], True, it[2]); t.add(rng.choice(SEPS))
        else:
            if not it[1].startswith("//"):
                stmt_start()
            s0, e0 = t.add(it[1]); t.add(rng.choice(SEPS))
            if it[1].startswith("import "):
                last_import[0] = e0
    cs = code_start[0] if code_start[0] is not None else 0
    final = t.src().encode("utf8")

    def inline_flag(m):
        # does anything but white space follow the import (ending at byte m) on its line?
        pos = int(m.group(1))
        nl = final.find(b"\n", pos)
        rest = final[pos:nl if nl >= 0 else len(final)].decode("utf8", "replace")
        rest = re.sub(r"/\*.*?\*/", " ", rest)          # comments are not tokens
        rest = re.sub(r"//.*$", "", rest)
        return "1" if rest.strip() else "0"
    for s in sites:
        for r in s["reqs"]:
            r["req"] = re.sub(r"IL(\d+)", inline_flag, r["req"].replace("CS", str(cs)))
    return {"src": t.src(), "media": media, "rule": rule, "sites": sites}


def gen_process(rng):
    return gen_global_like(rng, "no-process-global", ["process"],
                           lambda cjs, name, li, s, e: "8 %d %s CS" % (cjs, pipe.enc_opt(li, lambda v: "%d IL%d" % (v, v))), "optchange_nofix")


def gen_node_globals(rng):
    return gen_global_like(rng, "no-node-globals", NODE_NAMES,
                           lambda cjs, name, li, s, e: "9 %d %s %s CS %d %d" % (cjs, pipe.enc_str(name), pipe.enc_opt(li, lambda v: "%d IL%d" % (v, v)), s, e), "optopt")


# ---- verbatim-module-syntax
def gen_verbatim(rng):
    """imports whose locals are used as values / types / re-exported / unused; the IdCollector of the rule is
    modelled here (value use = identifier outside type positions, or a non-type export specifier)."""
    t, sites = T(), []
    media = rng.choice(["ts", "ts", "tsx", "mts"])
    t.add(rng.choice(["", "// é漢😀\n", "/* c */ ", "\n"]))
    names = ["A", "B", "C", "D", "E", "F", "G", "H"]
    rng.shuffle(names)
    pool = iter(names)
    imports = []      # list of dicts: kw range, specs [{kind, local, inline, s, e, type_span}]
    for _ in range(rng.randint(1, 2)):
        specs = []
        sp = lambda: rng.choice(["", " ", "  ", "/*c*/", "\n"])
        kw_s, kw_e = t.add("import")
        shape = rng.random()
        t.add(rng.choice([" ", " ", "  ", "/*c*/"]) if shape < 0.55 else rng.choice([" ", "", "/*c*/", "\n"]))
        has_default = shape < 0.35
        if has_default:
            nm = next(pool)
            s, e = t.add(nm)
            specs.append({"kind": "default", "local": nm, "inline": False, "s": s, "e": e})
        rest = rng.random()
        if has_default and rest < 0.5:
            pass
        else:
            if has_default:
                t.add(rng.choice([", ", ",", " , "]))
            if rest < 0.7 or not has_default and rest < 0.85:
                t.add("{" + sp())
                k = rng.randint(1, 3)
                for j in range(k):
                    nm = next(pool)
                    inline = rng.random() < 0.3
                    s = t.n
                    ts = None
                    if inline:
                        a, _ = t.add("type"); t.add(rng.choice([" ", "  ", "/*c*/", " /*c*/ ", "\n"])); ts = (a, t.n)
                    strname = False
                    if rng.random() < 0.3:
                        orig = rng.choice(["orig", "default"] + ([] if inline else ['"a-b"']))
                        strname = orig.startswith('"')
                        t.add(orig + " as ")
                    _, e = t.add(nm)
                    specs.append({"kind": "named", "local": nm, "inline": inline, "s": s, "e": e, "tspan": ts, "strname": strname})
                    t.add(sp() + ("," + sp() if j + 1 < k or rng.random() < 0.2 else ""))
                t.add("}")
            else:
                s, _ = t.add("*"); t.add(rng.choice([" ", ""])); t.add("as "); nm = next(pool); _, e = t.add(nm)
                specs.append({"kind": "ns", "local": nm, "inline": False, "s": s, "e": e})
        t.add((rng.choice([" ", "", "\n"]) if t.parts[-1].endswith("}") else rng.choice([" ", "\n", "/*c*/"])) + "from" + rng.choice([" ", ""]) + rng.choice(["'m'", '"é漢"']) + rng.choice([";", ";\n", "\n", "; "]))
        imports.append({"kw": (kw_s, kw_e), "specs": specs})
    value_used, exported_value = set(), set()
    locals_ = [s["local"] for im in imports for s in im["specs"]]
    typedecls = []
    exports = []
    for nm in locals_:
        k = rng.random()
        if k < 0.3:
            t.add(rng.choice(["%s;", "%s();", "new %s();", "x = %s.y;", "f(%s);"]) % nm + " "); value_used.add(nm)
        elif k < 0.6:
            t.add(rng.choice(["type T_%s = %s;", "let v_%s: %s;", "let w_%s: typeof %s;", "function f_%s(a: %s) {}"]) % (nm, nm) + " ")
        elif k < 0.7:
            t.add("type U_%s = %s; " % (nm, nm)); t.add("%s; " % nm); value_used.add(nm)
        elif k < 0.8:
            exports.append(nm)
    # local declarations that may be exported
    for nm, decl, is_value in (("L1", "type L1 = 1;", False), ("L2", "interface L2 {}", False), ("L3", "const L3 = 1;", True), ("L4", "class L4 {}", True)):
        if rng.random() < 0.35:
            t.add(decl + " ")
            if is_value:
                value_used.add(nm)
            if rng.random() < 0.7:
                exports.append(nm)
    export_stmt = None
    if exports and rng.random() < 0.9:
        rng.shuffle(exports)
        type_only_export = rng.random() < 0.15
        kw_s, kw_e = t.add("export")
        t.add(" type" if type_only_export else "")
        t.add(rng.choice([" ", "", "/*c*/"]) + "{" + rng.choice(["", " "]))
        especs = []
        for j, nm in enumerate(exports):
            inline = (not type_only_export) and rng.random() < 0.25
            s = t.n
            tsp = None
            if inline:
                a, _ = t.add("type"); t.add(rng.choice([" ", "  ", "/*c*/"])); tsp = (a, t.n)
            _, e = t.add(nm)
            if rng.random() < 0.25:
                _, e = t.add(" as " + rng.choice(["Z%d" % j, "default" if j == 0 else "Y%d" % j]))
            especs.append({"local": nm, "inline": inline, "s": s, "e": e, "tspan": tsp})
            if not inline and not type_only_export:
                exported_value.add(nm)
            t.add(("," + rng.choice(["", " "])) if j + 1 < len(exports) else rng.choice(["", " ", ","]))
        t.add("}" + rng.choice([";", "", ";\n"]))
        export_stmt = {"kw": (kw_s, kw_e), "specs": especs, "type_only": type_only_export}
    import_value = set(s["local"] for im in imports for s in im["specs"] if not s["inline"])
    for im in imports:
        tu = [s for s in im["specs"] if not s["inline"] and s["local"] not in value_used and s["local"] not in exported_value]
        inl = [s for s in im["specs"] if s["inline"]]
        if len(tu) + len(inl) == len(im["specs"]):
            spans = " ".join("1 %d %d" % s["tspan"] for s in inl)
            sites.append({"ds": im["kw"][0], "de": im["kw"][1], "reqs": [{"req": "10 %d %d %s" % (im["kw"][1], len(inl), spans), "dec": "optchanges"}]})
        else:
            for s in tu:
                named_ident = s["kind"] == "named" and not s.get("strname")
                sites.append({"ds": s["s"], "de": s["e"], "reqs": [{"req": "11 %d %d" % (named_ident, s["s"]), "dec": "optchange_nofix"}]})
    if export_stmt and not export_stmt["type_only"]:
        es = export_stmt["specs"]
        tu = [s for s in es if not s["inline"] and s["local"] not in value_used and s["local"] not in import_value]
        inl = [s for s in es if s["inline"]]
        if len(tu) + len(inl) == len(es):
            spans = " ".join("1 %d %d" % s["tspan"] for s in inl)
            sites.append({"ds": export_stmt["kw"][0], "de": export_stmt["kw"][1], "reqs": [{"req": "10 %d %d %s" % (export_stmt["kw"][1], len(inl), spans), "dec": "optchanges"}]})
        else:
            for s in tu:      # export specifiers are always named; the inline fix is offered for all of them
                sites.append({"ds": s["s"], "de": s["e"], "reqs": [{"req": "11 1 %d" % s["s"], "dec": "optchange_nofix"}]})
    return {"src": t.src(), "media": media, "rule": "verbatim-module-syntax", "sites": sites}


GENERATORS = {
    "jsx-curly-braces": gen_curly, "jsx-no-unescaped-entities": gen_entities, "jsx-boolean-value": gen_boolean,
    "jsx-props-no-spread-multi": gen_spread, "no-window": gen_no_window, "no-window-prefix": gen_no_window_prefix,
    "no-process-global": gen_process, "no-node-globals": gen_node_globals, "verbatim-module-syntax": gen_verbatim,
}

# minimal programs of the known defect classes + layouts the generators do not produce (oracle only; run first)
REGRESSION = [
    ("jsx", "jsx-curly-braces", "<a b={'x\"y'} />"), ("jsx", "jsx-curly-braces", "<a b={\"x'y\"} />"), ("jsx", "jsx-curly-braces", "<a b={'\"'} c={\"'\"} />"),
    ("jsx", "jsx-props-no-spread-multi", "<a {...x}{...x}/>"), ("jsx", "jsx-props-no-spread-multi", "<a {...x}/*c*/{...x}/>"),
    ("jsx", "jsx-props-no-spread-multi", "<a {...x}　{...x}/>"), ("jsx", "jsx-props-no-spread-multi", "<a {...x} { ...x }/>"),
    ("jsx", "jsx-props-no-spread-multi", "<a {...x} b={1}{...x}/>"), ("jsx", "jsx-props-no-spread-multi", "<a{...x}{...x}/>"),
    ("jsx", "jsx-props-no-spread-multi", "<a {...x} {...x} {...x}/>"), ("jsx", "jsx-props-no-spread-multi", "<a {...x}\r\n{...x}/>"),
    ("jsx", "jsx-boolean-value", "<Foo foo={true}bar={true} />"), ("jsx", "jsx-boolean-value", "<Foo foo/*c*/={true} />"),
    ("ts", "verbatim-module-syntax", "import A, * as ns from 'x'; type T = ns.X; A();"), ("ts", "verbatim-module-syntax", "import A, { B } from 'x'; type T = A; B();"),
    ("js", "verbatim-module-syntax", "import A from 'x';"), ("jsx", "verbatim-module-syntax", "import { A, B } from 'x'; B();"),
    ("cjs", "no-process-global", "process.exit()"), ("cjs", "no-node-globals", "Buffer.from('a'); global.x"), ("cts", "no-process-global", "process.exit()"),
    ("ts", "no-process-global", "declare module 'x' { import a from 'b'; }\nprocess.exit();"),
    ("ts", "no-node-globals", "declare module 'x' { import a from 'b'; }\nsetImmediate(f);"),
    ("jsx", "no-process-global", "<process />"), ("jsx", "no-node-globals", "<global />"), ("jsx", "no-node-globals", "<Buffer />"),
    ("js", "no-process-global", "with (a) { process.exit(); }"), ("js", "no-process-global", "x = 010; process.exit();"), ("js", "no-node-globals", "var yield = 1; Buffer;"),
    ("js", "no-process-global", "\"use strict\";\nprocess.exit();"), ("ts", "no-process-global", "import a from 'b'\nprocess.exit();"),
    ("ts", "verbatim-module-syntax", "import { type as as B } from 'x';"), ("ts", "verbatim-module-syntax", "type as = 1; type D = 2; export { type as as C, D };"),
    ("ts", "verbatim-module-syntax", "import { type as as B, C } from 'x'; type T = B | C;"), ("ts", "verbatim-module-syntax", "import { \"a-b\" as C, D } from 'x'; type T = C; D();"),
    ("ts", "no-node-globals", "// deno-lint-ignore no-node-globals\nconst a = setImmediate;\nconst b = Buffer;\n"),
    ("js", "no-process-global", "#!/usr/bin/env node\n// deno-lint-ignore no-process-global\nprocess.exit();\nprocess.env;\n"),
    ("ts", "no-node-globals", "/* header */ // deno-lint-ignore\nglobal.x;\r\nBuffer.from('a');"),
    ("ts", "no-node-globals", "// deno-lint-ignore no-node-globals\n/* header */ import a from 'b'; import 'side'; x = [setImmediate, 1];\nclearImmediate;\n"),
    ("ts", "no-process-global", "// deno-lint-ignore no-process-global\nimport a from 'b'; process.exit(); // c\nprocess.env;\n"),
    ("tsx", "no-node-globals", "<global.X></global.X>;"), ("jsx", "no-node-globals", "x = <global.A.B c={1}>t</global.A.B>;"),
    ("ts", "no-process-global", "import a from 'a' // c\nprocess;"), ("ts", "no-node-globals", "import a from 'a'; /* c */ Buffer.from(a);\nsetImmediate(f);"),
    ("ts", "no-node-globals", "// deno-lint-ignore no-node-globals\nimport a from 'a'; /* c */ Buffer.from(a);\nsetImmediate(f);"),
    ("ts", "no-window", "function f(globalThis) { window.fetch(); }"), ("ts", "no-window-prefix", "window.fetch(); window[\"console\"]; window[`crypto`];"),
]


# ---------------------------------------------------------------------------------------------- model side
def run_builds(progs):
    """fills prog["expected"] = sorted list of (ds, de, ((s,e,text),...)) | None (no prediction)"""
    lines, where = [], []
    for pi, p in enumerate(progs):
        if p.get("sites") is None:
            continue
        for si, st in enumerate(p["sites"]):
            for r in st["reqs"]:
                lines.append(r["req"]); where.append((pi, si, r["dec"]))
    outs = lib.run_model("text", "build", lines) if lines else []
    for p in progs:
        p["expected"] = None if p.get("sites") is None else []
    acc = {}
    for (pi, si, dec), o in zip(where, outs):
        if o.startswith("BAD_CASE") or o.startswith("STACK"):
            raise lib.Infra("text build driver: %s on %s" % (o, lines[len(acc)]))
        r = pipe.Reader(o)
        ch = lambda: (r.int(), r.int(), r.str())
        if dec == "change":
            val = [ch()]
        elif dec == "optchange":
            v = r.opt(ch); val = None if v is None else [v]
        elif dec == "optchange_nofix":
            v = r.opt(ch); val = "nofix" if v is None else [v]
        elif dec == "entities":
            rep = r.int(); c = ch(); val = [c] if rep else None
        elif dec == "optchanges":
            v = r.opt(lambda: r.list(ch)); val = "nofix" if v is None else v
        elif dec == "optopt":      # outer None: no diagnostic; inner None: diagnostic without fix
            if r.int() == 0:
                val = None
            elif r.int() == 0:
                val = "nofix"
            else:
                val = [ch()]
        acc[(pi, si)] = val
    for (pi, si), val in acc.items():
        st = progs[pi]["sites"][si]
        if val == "nofix":
            progs[pi]["expected"].append((st["ds"], st["de"], ("#fixes=0",)))
        elif val is not None:
            progs[pi]["expected"].append((st["ds"], st["de"], tuple(sorted(val))))
    for p in progs:
        if p["expected"] is not None:
            p["expected"].sort()


def impl_fixset(ds):
    out = []
    for d in ds:
        if len(d["fixes"]) != 1:
            out.append((d["start"], d["end"], ("#fixes=%d" % len(d["fixes"]),)))
        else:
            out.append((d["start"], d["end"], tuple(sorted((c["s"], c["e"], c["t"]) for c in d["fixes"][0]["changes"]))))
    return sorted(out)


# ---------------------------------------------------------------------------------------------- the property oracle
def map_pos(changes, p):
    d = 0
    for c in changes:
        if c["e"] <= p:
            d += len(c["t"].encode("utf8")) - (c["e"] - c["s"])
    return p + d


def overlaps(c, d):
    if c["s"] == c["e"]:
        return d["start"] < c["s"] < d["end"]
    return c["s"] < d["end"] and d["start"] < c["e"]


def still_reported(d, changes, new_ds):
    """is there a diagnostic with the same message at the image of d's range in the fixed text?"""
    ov = [c for c in changes if overlaps(c, d)]
    if any(c["t"] == "" and c["s"] <= d["start"] and d["end"] <= c["e"] for c in ov):
        return False                       # the reported text itself was deleted
    def img(p, left):
        for c in ov:
            if c["s"] < p < c["e"] or (left and p == c["s"] and c["s"] != c["e"]):
                a = map_pos([x for x in changes if x is not c], c["s"])
                return a if left else a + len(c["t"].encode("utf8"))
        if left:     # a replacement that ends exactly where the diagnostic starts stays in front of it
            return map_pos(changes, p)
        return map_pos([c for c in changes if not (c["s"] == p and c["s"] == c["e"])], p) if False else map_pos(changes, p)
    s, e = img(d["start"], True), img(d["end"], False)
    return any(n["start"] == s and n["end"] == e and n["msg"] == d["msg"] for n in new_ds)


class Oracle:
    def __init__(self, ctx):
        self.ctx = ctx
        self.seen = collections.Counter()
        self.fixes_checked = 0
        self.by_rule = collections.Counter()
        self.apply_lines, self.apply_expect = [], []
        self.failed_srcs = set()

    def fail(self, rule, what, prog, diag, fix, fixed, detail):
        self.failed_srcs.add(prog.get("root", prog["src"]))
        cls = "C13.%s:%s:%s" % (rule, what, cause(rule, what, prog, diag, fix, fixed))
        self.seen[cls] += 1
        if self.seen[cls] <= 2:
            self.ctx.violation(cls, "%s %s: %s  [%s] fix %s -> %s" % (rule, what, detail, json.dumps(prog["src"], ensure_ascii=False)[:160], json.dumps(fix["changes"], ensure_ascii=False)[:120],
                                                                     json.dumps(fixed, ensure_ascii=False)[:160]),
                               {"program": {"src": prog["src"], "media": prog["media"], "rules": [rule]}, "diagnostic": diag, "fix": fix, "fixed_text": fixed, "what": what, "detail": detail,
                                "how": "lint the program with the rule, apply the fix to the UTF-8 bytes, parse/lint the result with the same media type"})

    def single_fixes(self, progs, results):
        """every offered fix of every diagnostic: apply, re-parse, re-lint"""
        jobs = []
        for p, r in zip(progs, results):
            if status(r) != "ok":
                continue
            ds = rule_diags(r, p["rule"])
            for d in ds:
                for fi, fx in enumerate(d["fixes"]):
                    bad = check_changes(p["src"], fx["changes"])
                    for w in sorted(set(bad)):
                        self.fail(p["rule"], w, p, d, fx, None, "fix change ranges: " + w)
                    fb = apply_changes(p["src"], fx["changes"])
                    self.apply_lines.append("%s %s" % (enc_bytes(p["src"].encode("utf8")),
                                                      pipe.enc_list(fx["changes"], lambda c: "%d %d %s" % (c["s"], c["e"], enc_bytes(c["t"].encode("utf8"))))))
                    self.apply_expect.append((not [w for w in bad if w != "change-off-char-boundary"], fb))
                    if fb is None:
                        continue
                    jobs.append((p, r, ds, d, fx, fb.decode("utf8", "replace"), "change-off-char-boundary" in bad))
        cases = [{"src": j[5], "media": j[0]["media"], "rules": [j[0]["rule"]]} for j in jobs]
        parsed = lib.run_vh("parse", [{"src": c["src"], "media": c["media"]} for c in cases], per_case_timeout=5)
        linted = lib.run_vh("lint", cases, per_case_timeout=5)
        for (p, r, ds, d, fx, fixed, offb), pr, lr in zip(jobs, parsed, linted):
            rule = p["rule"]
            self.fixes_checked += 1
            self.by_rule[rule] += 1
            if status(pr) in ("panic", "crash") or status(lr) in ("panic", "crash"):
                continue        # totality is C01's business
            if status(pr) != "ok":
                if not offb:
                    self.fail(rule, "unparsable", p, d, fx, fixed, "the fixed text does not parse: %s" % pr.get("parse_error"))
                continue
            if pr.get("parse_diags", 0) > r.get("parse_diags", 0):
                self.fail(rule, "new-syntax-diagnostic", p, d, fx, fixed, "the parser reports %d recoverable syntax error(s) on the fixed text, %d before" % (pr.get("parse_diags", 0), r.get("parse_diags", 0)))
            if status(lr) != "ok":
                continue
            nds = rule_diags(lr, rule)
            if len(nds) >= len(ds):
                self.fail(rule, "not-fewer", p, d, fx, fixed, "%d diagnostics of the rule before, %d after" % (len(ds), len(nds)))
            elif still_reported(d, fx["changes"], nds):
                self.fail(rule, "still-reported", p, d, fx, fixed, "the fixed diagnostic is reported again at the corresponding place")

    def loops(self, progs, results):
        """apply the first fix of the first fixable diagnostic repeatedly; bound = initial number of fixable diagnostics + 1"""
        act = []
        for p, r in zip(progs, results):
            if status(r) == "ok" and fixable(rule_diags(r, p["rule"])):
                act.append({"p": p, "src": p["src"], "res": r, "steps": 0, "bound": len(fixable(rule_diags(r, p["rule"]))) + 1, "last": None})
        nloops = len(act)
        maxsteps = 0
        while act:
            nxt = []
            for a in act:
                fd = fixable(rule_diags(a["res"], a["p"]["rule"]))
                if not fd:
                    maxsteps = max(maxsteps, a["steps"])
                    continue
                if a["steps"] >= a["bound"]:
                    d = fd[0]
                    if a["p"]["src"] in self.failed_srcs:
                        continue     # consequence of a failure already reported for a fix of this program
                    self.fail(a["p"]["rule"], "fix-loop-exceeds-bound", dict(a["p"], src=a["src"]), d, d["fixes"][0], None,
                              "still %d fixable diagnostics after %d steps (bound %d) starting from %s" % (len(fd), a["steps"], a["bound"], json.dumps(a["p"]["src"], ensure_ascii=False)[:120]))
                    continue
                d = fd[0]; fx = d["fixes"][0]
                fb = apply_changes(a["src"], fx["changes"])
                if fb is None:
                    continue    # reported by single_fixes (changes-overlap / out-of-bounds)
                a["last"] = (dict(a["p"], src=a["src"], root=a["p"]["src"]), d, fx)
                a["src"] = fb.decode("utf8", "replace"); a["steps"] += 1
                nxt.append(a)
            if not nxt:
                break
            res = lib.run_vh("lint", [{"src": a["src"], "media": a["p"]["media"], "rules": [a["p"]["rule"]]} for a in nxt], per_case_timeout=5)
            act = []
            for a, r in zip(nxt, res):
                if status(r) == "ok":
                    a["res"] = r; act.append(a)
                elif status(r) == "parse_error":
                    lp, d, fx = a["last"]
                    if "change-off-char-boundary" not in check_changes(lp["src"], fx["changes"]):
                        self.fail(a["p"]["rule"], "unparsable", lp, d, fx, a["src"], "fix loop, step %d: the text does not parse: %s" % (a["steps"], r.get("parse_error")))
        return nloops, maxsteps


MEDIA_OF_RULE = {r: (["jsx", "tsx"] if r.startswith("jsx-") else ["ts", "js"]) for r in FIX_RULES}


def corpus_programs():
    out = []
    for sn in corpus_mod.corpus(lib.REPO):
        rule = sn["rule_file"].replace("_", "-")
        if rule in FIX_RULES:
            for m in MEDIA_OF_RULE[rule]:
                out.append({"src": sn["src"], "media": m, "rule": rule, "sites": None, "origin": "repo-test"})
    return out


# ---------------------------------------------------------------------------------------------- text rules (C03/C09 text part)
IRR_ALL = ["\x0b", "\x0c", "\x85", "﻿", "\xa0", " ", "᠎", " ", " ", " ", " ", "​", " ", " ", " ", " ", "　"]
IRR_JS_WS = ["\x0b", "\x0c", "﻿", "\xa0", " ", " ", " ", " ", " ", " ", " ", " ", "　"]
LT = "\n\r  "


def filler(rng, forbid, n=None):
    atoms = ["a", "b", "Z", "0", " ", "  ", "é", "ñ", "漢", "字", "😀", "𝒳", "\t", "-", ".", "\n"] + IRR_ALL
    w = [3, 3, 2, 2, 3, 1, 2, 1, 2, 1, 2, 1, 1, 1, 1, 1] + [1] * len(IRR_ALL)
    out = []
    for _ in range(rng.randint(0, 6) if n is None else n):
        a = rng.choices(atoms, w)[0]
        if any(c in forbid for c in a):
            continue
        out.append(a)
    return "".join(out)


def gap(rng, must=False):
    k = rng.random()
    if k < 0.45:
        return " "
    if k < 0.55 and not must:
        return ""
    if k < 0.65:
        return "\n"
    n = rng.randint(1, 3)
    return "".join(rng.choice(IRR_JS_WS + [" ", "\t", "\n"]) for _ in range(n))


def gen_text_program(rng):
    jsx = rng.random() < 0.3
    parts = []
    k = rng.random()
    if k < 0.08:
        parts.append("﻿" * rng.choice([1, 1, 2]))
    elif k < 0.14:
        parts.append("#!/usr/bin/env deno" + filler(rng, LT) + "\n")
    for _ in range(rng.randint(1, 6)):
        k = rng.random()
        g = lambda must=False: gap(rng, must)
        if k < 0.2:
            q = rng.choice("'\"")
            parts.append("const" + g(True) + rng.choice(["a", "π", "名前", "b1"]) + g() + "=" + g() + q + filler(rng, q + "\\\n\r") + q + g() + ";")
        elif k < 0.32:
            parts.append("x" + g() + "=" + g() + "`" + filler(rng, "`$\\") + "${" + g() + "y" + g() + "}" + filler(rng, "`$\\") + "`" + ";")
        elif k < 0.47:
            parts.append("//" + filler(rng, LT) + "\n")
        elif k < 0.6:
            parts.append("/*" + filler(rng, "") .replace("*/", "") + "*/")
        elif k < 0.68:
            parts.append("r" + g() + "=" + g() + "/" + filler(rng, LT + ".-\\/[](){}*+?|^$", rng.randint(1, 4)).replace(" ", "s") + "x/u" + ";")
        elif k < 0.8 and jsx:
            parts.append("(" + g() + "<a" + g(True) + "b=\"" + filler(rng, '"') + "\"" + g() + ">" + filler(rng, "{}<>") + "</a>" + g() + ");")
        elif k < 0.9:
            parts.append("f(" + g() + "1" + g() + "," + g() + "2" + g() + ")" + g() + ";")
        else:
            parts.append("if" + g() + "(" + g() + "a" + g() + ")" + g() + "{" + g() + "}")
        parts.append(g())
    if rng.random() < 0.15:
        parts.append(rng.choice(["// π", "/* 漢 */", "// x　", "　", "\xa0\xa0"]))
    return {"src": "".join(parts), "media": rng.choice(["jsx", "tsx"]) if jsx else rng.choice(["ts", "js", "mjs"])}


TEXT_REGRESSION = ["const π = Math.PI;", "π", "// π", "var any \u000b = 'thing';", "\xa0\xa0a;\xa0", "a;  　　b;", "/* \u0085 ᠎ ​ */ a;", "﻿a;﻿",
                   "' \xa0'; `　${ a }\xa0`; /\xa0/u;", "#!/x \xa0\n\xa0a;", "a;\r\n　\r\nb;", ""]


def _text_proof(ctx, prop_file):
    ok, thms, out = lib.props_assumptions(prop_file)
    ctx.checker_cmds.append("cd /verif/coq && coq_makefile -f _CoqProject -o Makefile && make Props/%s.vo  (coqc 8.16.1, full .vo build)" % prop_file)
    if not ok:
        for nm in lib.theorem_statements(prop_file) or ["Props/%s.v" % prop_file]:
            ctx.obligation("theorem " + nm, False, out[-1500:])
        return False
    for name, axioms in thms:
        extra = [a for a in axioms if a not in lib.ALLOWED_AXIOMS]
        ctx.obligation("theorem %s (Print Assumptions: %s)" % (name, "closed" if not axioms else ",".join(axioms)), not extra, ",".join(extra))
    if ctx.tier == "thorough":
        ctx.coqchk(prop_file)
    return True


def _text_run(progs):
    """implementation (both rules) + swc tokens + the two extracted models on every program that parses;
    returns list of dicts {prog, text, impl_pa, impl_ir, model_pa, model_ir (None = slice panic), diags}"""
    lint = lib.run_vh("lint", [dict(p, rules=["prefer-ascii", "no-irregular-whitespace"]) for p in progs], per_case_timeout=5)
    toks = lib.run_vh("tokens", progs, per_case_timeout=5)
    idx = [i for i, (l, t) in enumerate(zip(lint, toks)) if status(l) == "ok" and "tokens" in (t or {})]
    texts = [progs[i]["src"].lstrip("﻿") for i in idx]       # lint_file strips the byte order mark(s)
    pa = lib.run_model("text", "prefer_ascii", [pipe.enc_str(s) for s in texts])
    ir = lib.run_model("text", "irregular", ["%s %s" % (pipe.enc_str(s), pipe.enc_list(toks[i]["tokens"], lambda t: "%d %d" % (t[0], t[1]))) for i, s in zip(idx, texts)])
    out = {}
    for i, s, mpa, mir in zip(idx, texts, pa, ir):
        res = lint[i]["ok"]
        r = pipe.Reader(mpa)
        m1 = sorted(r.list(lambda: (r.int(), r.int(), r.int())), key=lambda x: (x[1], x[2]))
        i1 = []
        for d in res:
            if d["code"] == "prefer-ascii":
                h = d.get("hint") or ""
                cp = int(h.split("\\u{")[1].split("}")[0], 16) if "\\u{" in h else -1
                i1.append((cp, d["start"], d["end"]))
        i1.sort(key=lambda x: (x[1], x[2]))
        r = pipe.Reader(mir)
        m2 = None if r.int() == 0 else sorted(r.list(lambda: (r.int(), r.int())))
        i2 = sorted((d["start"], d["end"]) for d in res if d["code"] == "no-irregular-whitespace")
        out[i] = {"prog": progs[i], "text": s, "impl_pa": i1, "impl_ir": i2, "model_pa": m1, "model_ir": m2, "diags": res, "tokens": toks[i]["tokens"]}
    return out


TEXT_RULE_DESC = ("generated programs: ASCII + 2/3/4-byte characters and all irregular white space characters (U+000B U+000C U+0085 U+FEFF U+00A0 U+1680 U+180E U+2000..U+200B "
                  "U+2028 U+2029 U+202F U+205F U+3000) in token gaps, line/block comments, strings, templates, regex literals, JSX text and attribute strings, after a shebang or BOM, "
                  "at the very end of the file; model input = text + swc's token ranges (harness `tokens`); compared: every (start,end) and the reported character")


def text_rules_c03(ctx, n=None):
    """C03, text-scanning rules: proof stage of Props/C03_text.v + prefer-ascii / no-irregular-whitespace vs the extracted scanning
    models; every implementation range is checked against the C03 clause (inside the text, char boundaries, start <= end)."""
    _text_proof(ctx, "C03_text")
    exe, out = lib.build_model("text")
    if exe is None:
        ctx.obligation("extraction + build of the text model driver", False, out[-2000:])
        return
    rng = random.Random(ctx.seed + 1303)
    n = n or (3000 if ctx.tier == "quick" else 120000)
    progs = [{"src": s, "media": "ts"} for s in TEXT_REGRESSION] + [gen_text_program(rng) for _ in range(n)]
    runs = _text_run(progs)
    mism, nontriv = [], 0
    dist, nbad = collections.Counter(), collections.Counter()
    for i, x in runs.items():
        bounds = char_bounds(x["text"])
        nb = len(x["text"].encode("utf8"))
        for d in x["diags"]:
            if not (0 <= d["start"] <= d["end"] <= nb):
                cls = "C03.range-out-of-text:" + d["code"]
            elif d["start"] not in bounds or d["end"] not in bounds:
                cls = "C03.range-off-char-boundary:" + d["code"]
            else:
                continue
            nbad[cls] += 1
            if nbad[cls] <= 2:
                ctx.violation(cls, "%s [%d,%d) in a text of %d bytes" % (d["code"], d["start"], d["end"], nb), {"case": dict(x["prog"], rules=[d["code"]]), "diagnostic": d})
        if x["model_pa"] != x["impl_pa"]:
            mism.append({"rule": "prefer-ascii", "case": x["prog"], "impl": x["impl_pa"][:8], "model": x["model_pa"][:8]})
        if x["model_ir"] != x["impl_ir"]:
            mism.append({"rule": "no-irregular-whitespace", "case": x["prog"], "tokens": x["tokens"][:20], "impl": x["impl_ir"][:8], "model": x["model_ir"] if x["model_ir"] is None else x["model_ir"][:8]})
        if x["impl_pa"] or x["impl_ir"]:
            nontriv += 1
        dist["prefer-ascii diagnostics"] += len(x["impl_pa"]); dist["no-irregular-whitespace diagnostics"] += len(x["impl_ir"])
    dist["programs that parse"] = len(runs); dist["programs rejected by the parser (skipped)"] = len(progs) - len(runs)
    keys = sorted(runs)
    ctx.correspondence("prefer-ascii / no-irregular-whitespace: rules vs extracted scanning models (Text/PreferAscii.v, Text/Irregular.v)",
                       len(runs) * 2, nontriv, mism[:10], TEXT_RULE_DESC + "; non-trivial := program with at least one diagnostic of either rule",
                       samples=[{"case": runs[k]["prog"], "impl": runs[k]["diags"][:3]} for k in keys[:2]], distribution=dict(dist))
    return mism


# token-free prefixes whose last character is not an irregular white space character (the side condition of
# C09_irregular_ws_prefix: no run spans the border)
TEXT_PREFIXES = ["\n", "\n\n\n", "   ", "\t", "\r\n", "// ascii comment\n", "// é漢😀 π comment\n", "/* block */ ", "/* é\n 　 */\n", "//\xa0\u3000 irregular\n",
                 "/* \u2028 \u0085 ᠎ */", "\xa0\n", "\x0b \x0c ", "　　 ", "/*😀*/"]


def text_rules_c09(ctx, n=None):
    """C09, text-scanning rules: proof stage of Props/C09_text.v + prefix differential: for P and prefix+P the two rules AND the
    two models are run; property oracle on the implementation: the diagnostics located behind the prefix are exactly the
    diagnostics of P translated by the byte length of the prefix."""
    _text_proof(ctx, "C09_text")
    exe, out = lib.build_model("text")
    if exe is None:
        ctx.obligation("extraction + build of the text model driver", False, out[-2000:])
        return
    rng = random.Random(ctx.seed + 1309)
    n = n or (1500 if ctx.tier == "quick" else 60000)
    base = [{"src": s, "media": "ts"} for s in TEXT_REGRESSION if s and not s.startswith("#!") and not s.startswith("﻿")]
    while len(base) < n:
        p = gen_text_program(rng)
        if p["src"] and not p["src"].startswith("#!") and not p["src"].startswith("﻿"):
            base.append(p)
    progs, pairs = [], []
    for p in base:
        k = len(progs)
        progs.append(p)
        for pre in rng.sample(TEXT_PREFIXES, 2 if ctx.tier == "quick" else 4):
            pairs.append((k, len(progs), pre))
            progs.append(dict(p, src=pre + p["src"]))
    runs = _text_run(progs)
    mism, nontriv, nbad = [], 0, collections.Counter()
    for x in runs.values():
        if x["model_pa"] != x["impl_pa"]:
            mism.append({"rule": "prefer-ascii", "case": x["prog"], "impl": x["impl_pa"][:8], "model": x["model_pa"][:8]})
        if x["model_ir"] != x["impl_ir"]:
            mism.append({"rule": "no-irregular-whitespace", "case": x["prog"], "impl": x["impl_ir"][:8], "model": x["model_ir"] if x["model_ir"] is None else x["model_ir"][:8]})
    for (k, j, pre) in pairs:
        if k not in runs:
            continue
        if j not in runs:
            cls = "C09.text-prefix-changes-parse"
            nbad[cls] += 1
            if nbad[cls] <= 2:
                ctx.violation(cls, "the program parses, prefix+program does not", {"base": progs[k], "variant": progs[j], "prefix": pre})
            continue
        a, b = runs[k], runs[j]
        sh = len(pre.encode("utf8"))
        if a["impl_pa"] or a["impl_ir"]:
            nontriv += 1
        for rule, key, tr in (("prefer-ascii", "impl_pa", lambda d: (d[0], d[1] + sh, d[2] + sh)), ("no-irregular-whitespace", "impl_ir", lambda d: (d[0] + sh, d[1] + sh))):
            exp = [tr(d) for d in a[key]]
            got = [d for d in b[key] if (d[1] if rule == "prefer-ascii" else d[0]) >= sh]      # diagnostics inside the prefix are excluded
            inside = [d for d in b[key] if (d[1] if rule == "prefer-ascii" else d[0]) < sh]
            if exp != got or any((d[2] if rule == "prefer-ascii" else d[1]) > sh for d in inside):
                cls = "C09.text-prefix-not-equivariant:" + rule
                nbad[cls] += 1
                if nbad[cls] <= 2:
                    ctx.violation(cls, "%s: prefix %r: expected %s got %s" % (rule, pre, exp[:5], got[:5]),
                                  {"base": dict(progs[k], rules=[rule]), "variant": dict(progs[j], rules=[rule]), "prefix": pre, "expected_behind_prefix": exp[:20], "got_behind_prefix": got[:20]})
    ctx.correspondence("prefer-ascii / no-irregular-whitespace under token-free prefixes: rules vs extracted models, and P vs prefix+P on the implementation",
                       len(runs) * 2, nontriv, mism[:10],
                       TEXT_RULE_DESC + "; prefixes %s (white space, ASCII and non-ASCII comments, irregular white space inside and as the prefix, never as its last character next to "
                       "an irregular first gap: the side condition of C09_irregular_ws_prefix); oracle: diagnostics behind the prefix = diagnostics of P + byte length of the prefix, "
                       "diagnostics of the prefix end inside it; non-trivial := base program with at least one diagnostic" % [p for p in TEXT_PREFIXES])
    return mism


def text_rules_check(ctx, n=None):
    """both text-rule checks (kept for callers that want everything at once)"""
    return (text_rules_c03(ctx, n) or []) + (text_rules_c09(ctx, n) or [])


# ---------------------------------------------------------------------------------------------- C13
@register("C13")
def c13(ctx):
    ctx.assumptions.append("'still parses' and 'the rule reports fewer' are delegated to the real parser/linter (every offered fix of every generated and repo test program is applied, re-parsed, re-linted); "
                           "proved: the builders' lexical contracts (Text/FixBuilders.v), the application algebra (Text/FixApply.v), termination of the fix loop GIVEN the per-fix decrease")
    ctx.assumptions.append("swc's tokens/spans, the scope analysis (which identifiers are global) and the regex crate's find_iter/replace are inputs of the models")
    ctx.proof_stage("C13", ["Text/FixBuilders.vo"])
    exe, out = lib.build_model("text")
    if exe is None:
        ctx.obligation("extraction + build of the text model driver", False, out[-2000:])
        return
    rng = random.Random(ctx.seed + 13)
    per_rule = 350 if ctx.tier == "quick" else 20000
    progs = [{"src": s, "media": m, "rule": r, "sites": None, "origin": "regression"} for (m, r, s) in REGRESSION]
    progs += corpus_programs()
    ngen0 = len(progs)
    for rule in FIX_RULES:
        for _ in range(per_rule):
            p = GENERATORS[rule](rng)
            p["origin"] = "generated"
            progs.append(p)
    # script-only syntax in front of a program that gets an import inserted (known class), cjs media
    for _ in range(20 if ctx.tier == "quick" else 200):
        rule = rng.choice(["no-process-global", "no-node-globals"])
        p = GENERATORS[rule](rng)
        if "import" in p["src"] or "export" in p["src"]:
            continue
        if rng.random() < 0.5:
            p.update(media="cjs", sites=None, origin="generated-cjs")
        else:
            p.update(src=rng.choice(SCRIPT_ONLY) + "\n" + p["src"], media="js", sites=None, origin="generated-script-only", script_only=True)
        progs.append(p)
    # a line-level ignore directive above the first line (or below a shebang): what the directive is attached to must survive a fix
    base_for_dir = [q for q in progs if q["origin"] in ("generated", "repo-test")]
    for q in rng.sample(base_for_dir, min(len(base_for_dir), 400 if ctx.tier == "quick" else 6000)):
        word = rng.choice([q["rule"], q["rule"], "no-explicit-any", "", q["rule"] + " no-unused-vars"])
        line = "// deno-lint-ignore" + (" " + word if word else "") + rng.choice(["\n", "\n", "\r\n"])
        src = q["src"]
        if src.startswith("#!"):
            k = src.find("\n") + 1
            if k == 0:
                continue
            src2 = src[:k] + line + src[k:]
        else:
            src2 = line + src
        progs.append({"src": src2, "media": q["media"], "rule": q["rule"], "sites": None, "origin": "directive-above-first-line"})
    for _ in range(60 if ctx.tier == "quick" else 1500):
        rule, names = rng.choice([("no-process-global", ["process"]), ("no-node-globals", NODE_NAMES)])
        head = rng.choice(["", "", "#!/usr/bin/env node\n", "/* h */ ", "// c\n", "\n\n", "  "])
        word = rng.choice([rule, rule, "", "no-explicit-any", rule + " no-var"])
        eol = rng.choice(["\n", "\r\n"])
        body = eol.join(rng.choice(G_FLAGGED).replace("@", rng.choice(names)) for _ in range(rng.randint(2, 4)))
        progs.append({"src": head + "// deno-lint-ignore" + (" " + word if word else "") + eol + rng.choice(["", "  "]) + body + eol,
                      "media": rng.choice(["ts", "js", "mjs", "tsx"]), "rule": rule, "sites": None, "origin": "directive-above-first-statement"})
        # the directive as a TRAILING comment of the first line (it covers the NEXT line, never its own)
        lines3 = [rng.choice(G_FLAGGED).replace("@", rng.choice(names)) for _ in range(rng.randint(2, 4))]
        k3 = rng.randrange(len(lines3) - 1) if rng.random() < 0.5 else 0
        lines3[k3] += " // deno-lint-ignore" + (" " + word if word else "")
        progs.append({"src": rng.choice(["", "", "#!/usr/bin/env node\n"]) + eol.join(lines3) + eol, "media": rng.choice(["ts", "js", "mjs", "tsx"]), "rule": rule,
                      "sites": None, "origin": "directive-trailing-on-a-line"})
    # names the rules know about that this check does not: every identifier-like string literal of the two rule files is probed, and the ones
    # that are reported as globals go through every reference template (shorthand properties and type queries included), property level only
    import itertools as _it
    for rule, rfile in (("no-node-globals", "no_node_globals.rs"), ("no-process-global", "no_process_global.rs")):
        txt = open(os.path.join(lib.REPO, "src", "rules", rfile)).read()
        txt = txt[:txt.find("#[cfg(test)]")] if "#[cfg(test)]" in txt else txt
        cands = sorted(set(re.findall(r'"([A-Za-z_$][\w$]*)"', txt)))
        probe = lib.run_vh("lint", [{"src": "%s;" % nm, "media": "ts", "rules": [rule]} for nm in cands])
        found = [nm for nm, r0 in zip(cands, probe) if status(r0) == "ok" and rule_diags(r0, rule)]
        known = set(NODE_NAMES) | {"process"}
        for nm in found:
            for tpl in G_FLAGGED + ["let t9: typeof @;", "type T9 = typeof @;", "x = { @, y: 1 };", "export { @ };", "x = <@.Y />;", "class K9 extends @ {}", "label9: @;"]:
                if nm in known and tpl in G_FLAGGED:
                    continue
                for head in ("", "import a from 'b';\n"):
                    progs.append({"src": head + tpl.replace("@", nm) + "\n", "media": "tsx" if "<@" in tpl else "ts", "rule": rule, "sites": None, "origin": "discovered-name"})
    # jsx-curly-braces: sequences of children whose braces open and close on different lines
    CH = ['{" "}', '{"some text"}', '{"a"\n}', '{\n"b"}', "text", "\n", "{'x'}", '{" "}\n', "<b/>", '{"c"\n  }']
    for seq in _it.product(CH, repeat=3):
        if rng.random() < (0.35 if ctx.tier == "quick" else 1.0):
            progs.append({"src": "x = <p>" + "".join(seq) + "</p>;", "media": "jsx", "rule": "jsx-curly-braces", "sites": None, "origin": "curly-children-sequence"})
    results = lib.run_vh("lint", [{"src": p["src"], "media": p["media"], "rules": [p["rule"]]} for p in progs], per_case_timeout=5)
    run_builds(progs)
    # ---- correspondence: builders
    mism, nontriv = [], 0
    dist = collections.Counter()
    for p, r in zip(progs, results):
        st = status(r)
        dist["%s:%s:%s" % (p["rule"], p["origin"], st)] += 1
        if st != "ok":
            if p["expected"] is not None and st == "parse_error":
                mism.append({"what": "generated program does not parse", "case": p["src"], "media": p["media"], "rule": p["rule"], "error": r.get("parse_error")})
            continue
        ds = rule_diags(r, p["rule"])
        if fixable(ds):
            nontriv += 1
        if p["expected"] is not None and impl_fixset(ds) != p["expected"]:
            mism.append({"what": "diagnostics/fixes differ from the builder model", "rule": p["rule"], "media": p["media"], "case": p["src"], "impl": impl_fixset(ds)[:6], "model": p["expected"][:6]})
    ngen = sum(1 for p in progs if p["expected"] is not None)
    ctx.correspondence("fix builders: ranges and replacement texts of every offered fix vs the extracted builder models (Text/FixBuilders.v)",
                       ngen, sum(1 for p, r in zip(progs, results) if p["expected"] is not None and status(r) == "ok" and fixable(rule_diags(r, p["rule"]))), mism[:10],
                       "per rule %d generated programs (embedded quotes of both kinds, entities, multi-byte text, comments between JSX attributes, existing imports, shadowed names, "
                       "no-space layouts, CRLF, shebang/header comments); the generator predicts which diagnostics the rule gives and asks the extracted builders for each change; "
                       "non-trivial := program with at least one offered fix" % per_rule,
                       samples=[{"case": p["src"], "rule": p["rule"], "model": p["expected"][:2]} for p in progs[ngen0:ngen0 + 2]], distribution=dict(dist))
    # ---- the property on the implementation
    orc = Oracle(ctx)
    orc.single_fixes(progs, results)
    nloops, maxsteps = orc.loops(progs, results)
    ctx.extra["fixes_applied_reparsed_relinted"] = orc.fixes_checked
    ctx.extra["fixes_by_rule"] = dict(orc.by_rule)
    ctx.extra["fix_loops_run"] = nloops
    ctx.extra["fix_loop_max_steps"] = maxsteps
    ctx.extra["failure_classes_seen"] = dict(orc.seen)
    ctx.correspondence("property oracle on the implementation: every offered fix applied, re-parsed, re-linted; first-fix loop",
                       orc.fixes_checked + nloops, nontriv, [],
                       "regression programs + every repo test program of the 9 rule files (2 media types) + generated programs; per fix: changes in bounds / on char boundaries / non-overlapping, "
                       "fixed text parses (same media type) without new syntax diagnostics, the rule reports strictly fewer diagnostics, the fixed one is gone; per program: applying the first fix "
                       "repeatedly ends with no fixable diagnostic within (initial count + 1) steps; non-trivial := program with at least one offered fix")
    # ---- correspondence: apply (python on bytes) vs extracted apply_sorted / valid_changes
    amod = lib.run_model("text", "apply", orc.apply_lines) if orc.apply_lines else []
    amis = []
    for line, (valid, fb), o in zip(orc.apply_lines, orc.apply_expect, amod):
        r = pipe.Reader(o)
        mv = bool(r.int())
        mt = r.opt(lambda: bytes(r.list(r.int)))
        if mv != valid or (mt is None) != (fb is None or not valid) or (mt is not None and mt != fb):
            amis.append({"line": line[:300], "python": [valid, None if fb is None else fb.decode("utf8", "replace")], "model": [mv, None if mt is None else mt.decode("utf8", "replace")]})
    ctx.correspondence("apply: python apply on UTF-8 bytes vs extracted apply_sorted / valid_changes (Text/FixApply.v)", len(orc.apply_lines),
                       sum(1 for v, fb in orc.apply_expect if v), amis[:10], "every fix offered by the implementation in this run; non-trivial := applicable fix")
    # ---- the lexical predicate of the attribute fix predicts the parser's verdict
    attr = [(p, d) for p, r in zip(progs, results) if status(r) == "ok" and p["rule"] == "jsx-curly-braces"
            for d in rule_diags(r, p["rule"]) if d["fixes"] and d["msg"] == "Curly braces are not needed here"]
    if attr:
        preds = lib.run_model("text", "pred", ["1 " + pipe.enc_str(d["fixes"][0]["changes"][0]["t"]) for p, d in attr])
        fixed = [apply_changes(p["src"], d["fixes"][0]["changes"]).decode("utf8", "replace") for p, d in attr]
        pr = lib.run_vh("parse", [{"src": f, "media": p["media"]} for f, (p, d) in zip(fixed, attr)])
        pm = [{"case": p["src"], "fix": d["fixes"][0]["changes"], "jsx_attr_string": o.strip(), "parser": status(x)} for (p, d), o, x in zip(attr, preds, pr)
              if o.strip() == "1" and status(x) != "ok"]
        ctx.correspondence("jsx_attr_string (lexical predicate) vs the parser on every attribute fix of jsx-curly-braces", len(attr),
                           sum(1 for p, d in attr if d["fixes"][0]["changes"][0]["t"][:1] == "'"), pm[:10],
                           "predicate true -> the fixed text parses (a text that is not ONE attribute string may still parse by accident, as something else); "
                           "non-trivial := the fix had to use single quotes (the value contains a double quote)")
