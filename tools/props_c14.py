# C14 — Rules about global names respect lexical scoping.
#
# Proof stage: coq/Props/C14.v (MiniScope binding calculus, Scope/ReaderFacts.v over the regenerated Gen/Readers.v).
# Differential on the implementation: (rule, global name, reference template) x (binding form) x (nesting wrappers between
# binding and reference) -> expected SILENCE; the same name bound only in a sibling / non-enclosing scope, or used as a
# property key / member name / label -> expected REPORT exactly at the reference.  Every program is also written as a
# MiniScope term; the Coq resolver's verdict (vm_compute inside coqc) is compared with swc's resolver (harness `idents`:
# syntax context of the reference == unresolved context) and with deno_ast's `Scope::var` -- the model's assumptions about swc.
import json, os, random, re, subprocess, sys, time
import lib
from lib import log

try:
    from props import register
except ImportError:          # stand-alone exploration (python3 tools/props_c14.py ...)
    def register(_):
        return lambda f: f

sys.path.insert(0, os.path.join(lib.ROOT, "translate"))

# ----------------------------------------------------------------------------------------------
# MiniScope terms (python mirror of the constructors of coq/Scope/MiniScope.v; printed as Coq terms)
# ----------------------------------------------------------------------------------------------
def cps(s):
    return "[" + ";".join(str(ord(c)) for c in s) + "]"


def T(tag, *a):
    return (tag,) + a


def Ref(x): return T("Ref", x)
def Decl(k, x, pat=False): return T("Decl", k, pat, x)
def Bind(k, x, b, pat=False): return T("Bind", k, pat, x, b)
def Block(b): return T("Block", b)
def Fun(b): return T("Fun", b)
def PropKey(x, e): return T("PropKey", x, e)
def Member(e, x): return T("Member", e, x)
def Label(x, b): return T("Label", x, b)
Skip = T("Skip")


def Seq(*ts):
    ts = [t for t in ts if t is not None]
    r = ts[-1]
    for t in reversed(ts[:-1]):
        r = T("Seq", t, r)
    return r


def coq_term(t, nm=cps):
    """nm: how a name is printed (the batch run abbreviates names to one-element lists: only name identity matters)."""
    tag = t[0]
    if tag == "Ref":
        return "(Ref %s)" % nm(t[1])
    if tag == "Decl":
        return "(Decl (mkForm %s %s) %s)" % (t[1], "true" if t[2] else "false", nm(t[3]))
    if tag == "Bind":
        return "(Bind (mkForm %s %s) %s %s)" % (t[1], "true" if t[2] else "false", nm(t[3]), coq_term(t[4], nm))
    if tag in ("Block", "Fun"):
        return "(%s %s)" % (tag, coq_term(t[1], nm))
    if tag == "Seq":
        return "(Seq %s %s)" % (coq_term(t[1], nm), coq_term(t[2], nm))
    if tag == "PropKey":
        return "(PropKey %s %s)" % (nm(t[1]), coq_term(t[2], nm))
    if tag == "Member":
        return "(Member %s %s)" % (coq_term(t[1], nm), nm(t[2]))
    if tag == "Label":
        return "(Label %s %s)" % (nm(t[1]), coq_term(t[2], nm))
    if tag == "Skip":
        return "Skip"
    raise ValueError(tag)


# python mirror of the Coq resolver (only used to cross-check the coqc run and for stand-alone exploration)
VAR_SCOPED = {"KVar"}
TYPE_ONLY = {"KType"}          # declarations of the type namespace do not bind value references


def hoist_var(t):
    tag = t[0]
    if tag == "Decl":
        return [(t[3], t[1])] if t[1] in VAR_SCOPED else []
    if tag == "Bind":
        return hoist_var(t[4])
    if tag in ("Block", "Label"):
        return hoist_var(t[-1])
    if tag == "Seq":
        return hoist_var(t[1]) + hoist_var(t[2])
    if tag == "PropKey":
        return hoist_var(t[2])
    if tag == "Member":
        return hoist_var(t[1])
    return []


def hoist_lex(t):
    tag = t[0]
    if tag == "Decl":
        return [] if t[1] in VAR_SCOPED or t[1] in TYPE_ONLY else [(t[3], t[1])]
    if tag == "Seq":
        return hoist_lex(t[1]) + hoist_lex(t[2])
    if tag == "Label":
        return hoist_lex(t[2])
    return []


def py_resolve_all(t, env, out):
    """env: list of scopes (innermost first), a scope = list of (name, kind).  out: list of (name, innermost declaring scope's kinds | None)."""
    tag = t[0]
    if tag == "Ref":
        for sc in env:
            ks = [k for (n, k) in sc if n == t[1]]
            if ks:
                out.append((t[1], ks))
                return
        out.append((t[1], None))
    elif tag == "Bind":
        py_resolve_all(t[4], ([] if t[1] in TYPE_ONLY else [[(t[3], t[1])]]) + env, out)
    elif tag == "Block":
        py_resolve_all(t[1], [hoist_lex(t[1])] + env, out)
    elif tag == "Fun":
        py_resolve_all(t[1], [hoist_var(t[1]) + hoist_lex(t[1])] + env, out)
    elif tag == "Seq":
        py_resolve_all(t[1], env, out)
        py_resolve_all(t[2], env, out)
    elif tag == "PropKey":
        py_resolve_all(t[2], env, out)
    elif tag == "Member":
        py_resolve_all(t[1], env, out)
    elif tag == "Label":
        py_resolve_all(t[2], env, out)


# kinds deno_ast 0.46's Scope::analyze records (scopes.rs: visit_param, visit_var_decl, fn/class decl+expr, catch, imports,
# arrow params, interface/type alias).  Mirrors `recorded_deno_ast` of MiniScope.v.
RECORDED = {"KParam", "KConst", "KLet", "KVar", "KFunction", "KClass", "KImport", "KCatch", "KLoop", "KFnExprName", "KClassExprName"}

# ----------------------------------------------------------------------------------------------
# References: (family, rule, global name, statement template with @ = the reference identifier, media, MiniScope term of the reference)
# ----------------------------------------------------------------------------------------------
FAM_CTXT, FAM_VAR, FAM_PP = "unresolved-ctxt-rules", "scope-var-rules", "prefer-primordials"


def ref_member(x): return Member(Ref(x), "p9")


REFS = [
    # rules that ask deno_ast's Scope (scope().var / is_global)
    (FAM_VAR, "no-window", "window", "@.p9;", None),
    (FAM_VAR, "no-window", "window", "@;", None),
    (FAM_VAR, "no-window", "window", "v9 = @.p9.q9(1);", None),
    (FAM_VAR, "no-window-prefix", "window", "@.fetch(1);", None),
    (FAM_VAR, "no-window-prefix", "window", "@['setTimeout'](f9);", None),
    (FAM_VAR, "no-console", "console", "@.log(1);", None),
    (FAM_VAR, "no-console", "console", "@;", None),
    (FAM_VAR, "no-new-symbol", "Symbol", "new @();", None),
    (FAM_VAR, "no-obj-calls", "Math", "@();", None),
    (FAM_VAR, "no-obj-calls", "JSON", "new @();", None),
    (FAM_VAR, "no-obj-calls", "Reflect", "v9 = @(1);", None),
    (FAM_VAR, "no-obj-calls", "Atomics", "@();", None),
    (FAM_VAR, "no-deprecated-deno-api", "Deno", "@.readAll(r9);", None),
    (FAM_VAR, "no-deprecated-deno-api", "Deno", "v9 = new @.Buffer();", None),
    (FAM_VAR, "no-deprecated-deno-api", "Deno", "let t9: @.File;", "ts"),
    (FAM_VAR, "no-regex-spaces", "RegExp", "v9 = new @('a  b');", None),
    (FAM_VAR, "no-regex-spaces", "RegExp", "@('a  b');", None),
    (FAM_VAR, "no-control-regex", "RegExp", "v9 = new @('\\x1f');", None),
    (FAM_VAR, "no-control-regex", "RegExp", "@('\\x1f');", None),
    (FAM_VAR, "no-sync-fn-in-async-fn", "Deno", "(async () => { @.readFileSync('a'); })();", None),
    (FAM_VAR, "no-sync-fn-in-async-fn", "Deno", "(async function () { await 1; @.statSync('a'); })();", None),
    # rules that compare the reference's syntax context with the unresolved context
    (FAM_CTXT, "no-process-global", "process", "@.env;", None),
    (FAM_CTXT, "no-process-global", "process", "v9 = @;", None),
    (FAM_CTXT, "no-process-global", "process", "v9 = { @ };", None),
    (FAM_CTXT, "no-node-globals", "Buffer", "@.from('a');", None),
    (FAM_CTXT, "no-node-globals", "global", "v9 = @;", None),
    (FAM_CTXT, "no-node-globals", "setImmediate", "@(f9);", None),
    (FAM_CTXT, "no-node-globals", "clearImmediate", "v9 = [@];", None),
    (FAM_CTXT, "no-global-assign", "Array", "@ = 1;", None),
    (FAM_CTXT, "no-global-assign", "String", "@++;", None),
    (FAM_CTXT, "no-global-assign", "Object", "({ @ } = o9);", None),
    (FAM_CTXT, "no-global-assign", "Map", "[@] = o9;", None),
    # prefer-primordials (its own family: several handlers)
    (FAM_PP, "prefer-primordials", "parseInt", "@('1');", None),            # ident handler, GLOBAL_TARGETS (scope consulted)
    (FAM_PP, "prefer-primordials", "Array", "v9 = @;", None),
    (FAM_PP, "prefer-primordials", "Array", "@.from(o9);", None),           # member_expr handler, GLOBAL_TARGETS
    (FAM_PP, "prefer-primordials", "Symbol", "v9 = @.iterator;", None),
    (FAM_PP, "prefer-primordials", "Map", "v9 = new @();", None),           # ident handler, UNSAFE_CONSTRUCTOR_TARGETS
    (FAM_PP, "prefer-primordials", "Promise", "v9 = new @(f9);", None),
]

# prefer-primordials reports several things per reference template; the sub-family names the handler branch
PP_BRANCH = {"@('1');": "ident-global", "v9 = @;": "ident-global", "@.from(o9);": "member-global",
             "v9 = @.iterator;": "member-global", "v9 = new @();": "unsafe-constructor", "v9 = new @(f9);": "unsafe-constructor"}

# ----------------------------------------------------------------------------------------------
# Binding forms.  text(N, B) -> program text with the body B inside the binding's scope (or beside it);
# term(x, b) -> MiniScope term.  kind: "enclosing" (expect SILENCE) | "non-enclosing" (expect REPORT) | "info" (type-only).
# ----------------------------------------------------------------------------------------------
def F(name, kind, text, term, media=None, module=False, group=None):
    return {"name": name, "kind": kind, "text": text, "term": term, "media": media, "module": module, "group": group or name}


def fn_params(label, params, pat=False, kind="KParam", group=None):
    group = group or label
    return [
        F("%s:function-declaration" % label, "enclosing", lambda N, B, p=params: "function f0(%s) { %s }" % (p.replace("NAME", N), B),
          lambda x, b, pat=pat, kind=kind: Seq(Decl("KFunction", "f0"), Fun(Bind(kind, x, b, pat))), group=group),
        F("%s:arrow" % label, "enclosing", lambda N, B, p=params: "((%s) => { %s });" % (p.replace("NAME", N), B),
          lambda x, b, pat=pat, kind=kind: Fun(Bind(kind, x, b, pat)), group=group),
        F("%s:class-method" % label, "enclosing", lambda N, B, p=params: "class K0 { m0(%s) { %s } }" % (p.replace("NAME", N), B),
          lambda x, b, pat=pat, kind=kind: Seq(Decl("KClass", "K0"), Block(PropKey("m0", Fun(Bind(kind, x, b, pat))))), group=group),
    ]


FORMS = []
FORMS += fn_params("parameter", "NAME")
FORMS += fn_params("parameter-default", "a0, NAME = 1")
FORMS += fn_params("parameter-rest", "a0, ...NAME")
FORMS += fn_params("parameter-destructured", "{ NAME }", pat=True)
FORMS += fn_params("parameter-destructured-deep-default", "{ k0: [NAME = 1] }", pat=True, group="parameter-destructured")
FORMS += fn_params("parameter-destructured-array-rest", "[, ...NAME]", pat=True, group="parameter-destructured")
FORMS += [
    F("parameter:function-expression", "enclosing", lambda N, B: "(function (%s) { %s });" % (N, B), lambda x, b: Fun(Bind("KParam", x, b)), group="parameter"),
    F("parameter:arrow-single", "enclosing", lambda N, B: "(%s => { %s });" % (N, B), lambda x, b: Fun(Bind("KParam", x, b)), group="parameter"),
    F("parameter:constructor", "enclosing", lambda N, B: "class K0 { constructor(%s) { %s } }" % (N, B),
      lambda x, b: Seq(Decl("KClass", "K0"), Block(PropKey("constructor", Fun(Bind("KParam", x, b))))), group="parameter"),
    F("parameter:object-method", "enclosing", lambda N, B: "({ m0(%s) { %s } });" % (N, B), lambda x, b: PropKey("m0", Fun(Bind("KParam", x, b))), group="parameter"),
    F("parameter:class-setter", "enclosing", lambda N, B: "class K0 { set s0(%s) { %s } }" % (N, B),
      lambda x, b: Seq(Decl("KClass", "K0"), Block(PropKey("s0", Fun(Bind("KParam", x, b))))), group="parameter"),
    F("parameter:async-generator", "enclosing", lambda N, B: "(async function* (%s) { %s });" % (N, B), lambda x, b: Fun(Bind("KParam", x, b)), group="parameter"),
    # const / let / var
    F("const", "enclosing", lambda N, B: "const %s = 1; %s" % (N, B), lambda x, b: Seq(Decl("KConst", x), b)),
    F("let", "enclosing", lambda N, B: "let %s; %s" % (N, B), lambda x, b: Seq(Decl("KLet", x), b)),
    F("var", "enclosing", lambda N, B: "var %s; %s" % (N, B), lambda x, b: Seq(Decl("KVar", x), b)),
    F("const:declared-after-use", "enclosing", lambda N, B: "%s const %s = 1;" % (B, N), lambda x, b: Seq(b, Decl("KConst", x)), group="const"),
    F("let:declared-after-use", "enclosing", lambda N, B: "%s let %s = 1;" % (B, N), lambda x, b: Seq(b, Decl("KLet", x)), group="let"),
    F("var:hoisted-declared-after-use", "enclosing", lambda N, B: "%s var %s = 1;" % (B, N), lambda x, b: Seq(b, Decl("KVar", x)), group="var-hoisting"),
    F("var:hoisted-from-nested-block", "enclosing", lambda N, B: "{ { var %s = 1; } } %s" % (N, B), lambda x, b: Seq(Block(Block(Decl("KVar", x))), b), group="var-hoisting"),
    F("var:hoisted-from-if-after-use", "enclosing", lambda N, B: "function f0() { %s if (c9) { var %s; } }" % (B, N),
      lambda x, b: Seq(Decl("KFunction", "f0"), Fun(Seq(b, Block(Decl("KVar", x))))), group="var-hoisting"),
    F("var:hoisted-from-for-head", "enclosing", lambda N, B: "for (var %s = 0; c9;) {} %s" % (N, B), lambda x, b: Seq(Block(Seq(Decl("KVar", x), Block(Skip))), b), group="var-hoisting"),
    F("var:hoisted-from-for-of-head", "enclosing", lambda N, B: "for (var %s of o9) {} %s" % (N, B), lambda x, b: Seq(Block(Seq(Decl("KVar", x), Block(Skip))), b), group="var-hoisting"),
    F("var:hoisted-from-catch-body", "enclosing", lambda N, B: "try {} catch (e0) { var %s; } %s" % (N, B),
      lambda x, b: Seq(Block(Skip), Bind("KCatch", "e0", Block(Decl("KVar", x))), b), group="var-hoisting"),
    F("const:destructuring-object", "enclosing", lambda N, B: "const { %s } = o9; %s" % (N, B), lambda x, b: Seq(Decl("KConst", x, True), b), group="destructuring"),
    F("const:destructuring-renamed", "enclosing", lambda N, B: "const { k0: %s } = o9; %s" % (N, B), lambda x, b: Seq(Decl("KConst", x, True), b), group="destructuring"),
    F("let:destructuring-array", "enclosing", lambda N, B: "let [, %s] = o9; %s" % (N, B), lambda x, b: Seq(Decl("KLet", x, True), b), group="destructuring"),
    F("var:destructuring-rest", "enclosing", lambda N, B: "var { k0, ...%s } = o9; %s" % (N, B), lambda x, b: Seq(Decl("KVar", "k0", True), Decl("KVar", x, True), b), group="destructuring"),
    F("const:destructuring-deep-default", "enclosing", lambda N, B: "const { k0: { j0: [%s = 1] } } = o9; %s" % (N, B), lambda x, b: Seq(Decl("KConst", x, True), b), group="destructuring"),
    F("const:destructuring-array-rest", "enclosing", lambda N, B: "const [a0, ...%s] = o9; %s" % (N, B), lambda x, b: Seq(Decl("KConst", "a0", True), Decl("KConst", x, True), b), group="destructuring"),
    # functions and classes
    F("function-declaration", "enclosing", lambda N, B: "function %s() {} %s" % (N, B), lambda x, b: Seq(Decl("KFunction", x), Fun(Skip), b)),
    F("function-declaration:hoisted", "enclosing", lambda N, B: "%s function %s() {}" % (B, N), lambda x, b: Seq(b, Decl("KFunction", x), Fun(Skip)), group="function-declaration"),
    F("function-declaration:own-body", "enclosing", lambda N, B: "function %s() { %s }" % (N, B), lambda x, b: Seq(Decl("KFunction", x), Fun(b)), group="function-declaration"),
    F("function-declaration:generator", "enclosing", lambda N, B: "function* %s() {} %s" % (N, B), lambda x, b: Seq(Decl("KFunction", x), Fun(Skip), b), group="function-declaration"),
    F("function-expression-name", "enclosing", lambda N, B: "(function %s() { %s });" % (N, B), lambda x, b: Bind("KFnExprName", x, Fun(b))),
    F("class-declaration", "enclosing", lambda N, B: "class %s {} %s" % (N, B), lambda x, b: Seq(Decl("KClass", x), Block(Skip), b)),
    F("class-declaration:own-method", "enclosing", lambda N, B: "class %s { m0() { %s } }" % (N, B), lambda x, b: Seq(Decl("KClass", x), Block(PropKey("m0", Fun(b)))), group="class-declaration"),
    F("class-expression-name", "enclosing", lambda N, B: "(class %s { m0() { %s } });" % (N, B), lambda x, b: Bind("KClassExprName", x, Block(PropKey("m0", Fun(b))))),
    F("let:same-named-class-expression", "enclosing", lambda N, B: "let %s = class %s {}; %s" % (N, N, B),
      lambda x, b: Seq(Decl("KSameNamedClassVar", x), Bind("KClassExprName", x, Block(Skip)), b), group="variable-initialised-with-same-named-class-expression"),
    # imports
    F("import-default", "enclosing", lambda N, B: "import %s from 'm0'; %s" % (N, B), lambda x, b: Seq(Decl("KImport", x), b), module=True, group="import"),
    F("import-named", "enclosing", lambda N, B: "import { %s } from 'm0'; %s" % (N, B), lambda x, b: Seq(Decl("KImport", x), b), module=True, group="import"),
    F("import-named-renamed", "enclosing", lambda N, B: "import { k0 as %s } from 'm0'; %s" % (N, B), lambda x, b: Seq(Decl("KImport", x), b), module=True, group="import"),
    F("import-namespace", "enclosing", lambda N, B: "import * as %s from 'm0'; %s" % (N, B), lambda x, b: Seq(Decl("KImport", x), b), module=True, group="import"),
    F("import-default:after-use", "enclosing", lambda N, B: "%s import %s from 'm0';" % (B, N), lambda x, b: Seq(b, Decl("KImport", x)), module=True, group="import"),
    # catch
    F("catch-binding", "enclosing", lambda N, B: "try {} catch (%s) { %s }" % (N, B), lambda x, b: Seq(Block(Skip), Bind("KCatch", x, Block(b)))),
    F("catch-binding:destructured", "enclosing", lambda N, B: "try {} catch ({ %s }) { %s }" % (N, B), lambda x, b: Seq(Block(Skip), Bind("KCatch", x, Block(b), True)), group="catch-binding"),
    # loops
    F("for-let", "enclosing", lambda N, B: "for (let %s = 0; c9;) { %s }" % (N, B), lambda x, b: Bind("KLoop", x, Block(b)), group="loop-binding"),
    F("for-of-const", "enclosing", lambda N, B: "for (const %s of o9) { %s }" % (N, B), lambda x, b: Bind("KLoop", x, Block(b)), group="loop-binding"),
    F("for-in-let", "enclosing", lambda N, B: "for (let %s in o9) { %s }" % (N, B), lambda x, b: Bind("KLoop", x, Block(b)), group="loop-binding"),
    F("for-of-var", "enclosing", lambda N, B: "for (var %s of o9) { %s }" % (N, B), lambda x, b: Block(Seq(Decl("KVar", x), Block(b))), group="loop-binding"),
    F("for-of-destructured", "enclosing", lambda N, B: "for (const { %s } of o9) { %s }" % (N, B), lambda x, b: Bind("KLoop", x, Block(b), True), group="loop-binding"),
    F("for-of-destructured-array", "enclosing", lambda N, B: "for (const [k0, %s] of o9) { %s }" % (N, B), lambda x, b: Bind("KLoop", "k0", Bind("KLoop", x, Block(b), True), True), group="loop-binding"),
    F("for-await-of", "enclosing", lambda N, B: "(async () => { for await (const %s of o9) { %s } });" % (N, B), lambda x, b: Fun(Bind("KLoop", x, Block(b))), group="loop-binding"),
    # non-standard binding forms
    F("setter-parameter:object-literal", "enclosing", lambda N, B: "({ set s0(%s) { %s } });" % (N, B), lambda x, b: PropKey("s0", Fun(Bind("KSetterParam", x, b))), group="setter-parameter"),
    F("ts-enum", "enclosing", lambda N, B: "enum %s { A0 } %s" % (N, B), lambda x, b: Seq(Decl("KTsEnum", x), b), media="ts"),
    F("ts-enum:const", "enclosing", lambda N, B: "const enum %s { A0 } %s" % (N, B), lambda x, b: Seq(Decl("KTsEnum", x), b), media="ts", group="ts-enum"),
    F("ts-namespace", "enclosing", lambda N, B: "namespace %s { export const a0 = 1; } %s" % (N, B), lambda x, b: Seq(Decl("KTsNamespace", x), Block(Decl("KConst", "a0")), b), media="ts"),
    F("ts-namespace:own-body", "enclosing", lambda N, B: "namespace %s { %s }" % (N, B), lambda x, b: Seq(Decl("KTsNamespace", x), Block(b)), media="ts", group="ts-namespace"),
    F("ts-import-equals:require", "enclosing", lambda N, B: "import %s = require('m0'); %s" % (N, B), lambda x, b: Seq(Decl("KImportEquals", x), b), media="ts", module=True, group="ts-import-equals"),
    F("ts-import-equals:entity", "enclosing", lambda N, B: "import %s = N0.a0; %s" % (N, B), lambda x, b: Seq(Decl("KImportEquals", x), b), media="ts", module=True, group="ts-import-equals"),
    F("ts-parameter-property", "enclosing", lambda N, B: "class K0 { constructor(private %s: number) { %s } }" % (N, B),
      lambda x, b: Seq(Decl("KClass", "K0"), Block(PropKey("constructor", Fun(Bind("KParamProp", x, b))))), media="ts"),
    F("ts-parameter-property:readonly-default", "enclosing", lambda N, B: "class K0 { constructor(readonly %s = 1) { %s } }" % (N, B),
      lambda x, b: Seq(Decl("KClass", "K0"), Block(PropKey("constructor", Fun(Bind("KParamProp", x, b))))), media="ts", group="ts-parameter-property"),
    F("using", "enclosing", lambda N, B: "{ using %s = f9(); %s }" % (N, B), lambda x, b: Block(Seq(Decl("KUsing", x), b)), media="ts"),
    F("using:await", "enclosing", lambda N, B: "(async () => { await using %s = f9(); %s });" % (N, B), lambda x, b: Fun(Seq(Decl("KUsing", x), b)), media="ts", group="using"),
    F("ts-declare-const", "enclosing", lambda N, B: "declare const %s: number; %s" % (N, B), lambda x, b: Seq(Decl("KConst", x), b), media="ts", group="ts-ambient-value"),
    F("ts-declare-function", "enclosing", lambda N, B: "declare function %s(): void; %s" % (N, B), lambda x, b: Seq(Decl("KFunction", x), b), media="ts", group="ts-ambient-value"),
    F("ts-declare-class", "enclosing", lambda N, B: "declare class %s {} %s" % (N, B), lambda x, b: Seq(Decl("KClass", x), b), media="ts", group="ts-ambient-value"),
    F("ts-import-type", "enclosing", lambda N, B: "import type { %s } from 'm0'; %s" % (N, B), lambda x, b: Seq(Decl("KImport", x), b), media="ts", module=True, group="ts-import-type"),
    F("ts-import-type:default", "enclosing", lambda N, B: "import type %s from 'm0'; %s" % (N, B), lambda x, b: Seq(Decl("KImport", x), b), media="ts", module=True, group="ts-import-type"),
    # type-only bindings (the property does not say what they do to a VALUE reference: informational)
    F("ts-interface", "info", lambda N, B: "interface %s { a0: number } %s" % (N, B), lambda x, b: Seq(Decl("KType", x), b), media="ts", group="type-only"),
    F("ts-type-alias", "info", lambda N, B: "type %s = number; %s" % (N, B), lambda x, b: Seq(Decl("KType", x), b), media="ts", group="type-only"),
    F("ts-type-parameter", "info", lambda N, B: "function f0<%s>() { %s }" % (N, B), lambda x, b: Seq(Decl("KFunction", "f0"), Fun(Bind("KType", x, b))), media="ts", group="type-only"),
    # ------------------------------------------------------------------ non-enclosing: expect the REPORT
    F("none", "non-enclosing", lambda N, B: B, lambda x, b: b, group="no-binding"),
    F("sibling-block:const", "non-enclosing", lambda N, B: "{ const %s = 1; } %s" % (N, B), lambda x, b: Seq(Block(Decl("KConst", x)), b), group="sibling-scope"),
    F("sibling-block:let-after", "non-enclosing", lambda N, B: "%s { let %s = 1; }" % (B, N), lambda x, b: Seq(b, Block(Decl("KLet", x))), group="sibling-scope"),
    F("sibling-block:class", "non-enclosing", lambda N, B: "{ class %s {} } %s" % (N, B), lambda x, b: Seq(Block(Seq(Decl("KClass", x), Block(Skip))), b), group="sibling-scope"),
    F("sibling-function:parameter", "non-enclosing", lambda N, B: "function s0(%s) {} %s" % (N, B), lambda x, b: Seq(Decl("KFunction", "s0"), Fun(Bind("KParam", x, Skip)), b), group="sibling-scope"),
    F("sibling-function:var", "non-enclosing", lambda N, B: "function s0() { var %s; } %s" % (N, B), lambda x, b: Seq(Decl("KFunction", "s0"), Fun(Decl("KVar", x)), b), group="sibling-scope"),
    F("sibling-function:var-in-arrow-after", "non-enclosing", lambda N, B: "%s (() => { { var %s = 1; } });" % (B, N), lambda x, b: Seq(b, Fun(Block(Decl("KVar", x)))), group="sibling-scope"),
    F("sibling-function:inner-function-declaration", "non-enclosing", lambda N, B: "function s0() { function %s() {} } %s" % (N, B),
      lambda x, b: Seq(Decl("KFunction", "s0"), Fun(Seq(Decl("KFunction", x), Fun(Skip))), b), group="sibling-scope"),
    F("sibling-arrow:parameter", "non-enclosing", lambda N, B: "((%s) => %s); %s" % (N, N, B), lambda x, b: Seq(Fun(Bind("KParam", x, Skip)), b), group="sibling-scope"),
    F("sibling-arrow:destructured-parameter", "non-enclosing", lambda N, B: "(({ %s }) => 1); %s" % (N, B), lambda x, b: Seq(Fun(Bind("KParam", x, Skip, True)), b), group="sibling-scope"),
    F("function-expression-name:outside", "non-enclosing", lambda N, B: "(function %s() {}); %s" % (N, B), lambda x, b: Seq(Bind("KFnExprName", x, Fun(Skip)), b), group="sibling-scope"),
    F("class-expression-name:outside", "non-enclosing", lambda N, B: "v9 = class %s {}; %s" % (N, B), lambda x, b: Seq(Bind("KClassExprName", x, Block(Skip)), b), group="sibling-scope"),
    F("catch-binding:outside", "non-enclosing", lambda N, B: "try { %s } catch (%s) {}" % (B, N), lambda x, b: Seq(Block(b), Bind("KCatch", x, Block(Skip))), group="sibling-scope"),
    F("catch-binding:after", "non-enclosing", lambda N, B: "try {} catch (%s) {} %s" % (N, B), lambda x, b: Seq(Block(Skip), Bind("KCatch", x, Block(Skip)), b), group="sibling-scope"),
    F("for-of-const:after", "non-enclosing", lambda N, B: "for (const %s of o9) {} %s" % (N, B), lambda x, b: Seq(Bind("KLoop", x, Block(Skip)), b), group="sibling-scope"),
    F("for-let:after", "non-enclosing", lambda N, B: "for (let %s = 0; c9;) {} %s" % (N, B), lambda x, b: Seq(Bind("KLoop", x, Block(Skip)), b), group="sibling-scope"),
    F("method-parameter:sibling-method", "non-enclosing", lambda N, B: "class K0 { a0(%s) {} m0() { %s } }" % (N, B),
      lambda x, b: Seq(Decl("KClass", "K0"), Block(Seq(PropKey("a0", Fun(Bind("KParam", x, Skip))), PropKey("m0", Fun(b))))), group="sibling-scope"),
    F("setter-parameter:sibling", "non-enclosing", lambda N, B: "({ set s0(%s) {} }); %s" % (N, B), lambda x, b: Seq(PropKey("s0", Fun(Bind("KSetterParam", x, Skip))), b), group="sibling-scope"),
    F("ts-enum:sibling-block", "non-enclosing", lambda N, B: "{ enum %s { A0 } } %s" % (N, B), lambda x, b: Seq(Block(Decl("KTsEnum", x)), b), media="ts", group="sibling-scope"),
    # property keys, member names, labels
    F("property-key:object-literal", "non-enclosing", lambda N, B: "v9 = { %s: 1 }; %s" % (N, B), lambda x, b: Seq(PropKey(x, Skip), b), group="property-key"),
    F("property-key:enclosing-object-method", "non-enclosing", lambda N, B: "({ %s() { %s } });" % (N, B), lambda x, b: PropKey(x, Fun(b)), group="property-key"),
    F("property-key:class-method", "non-enclosing", lambda N, B: "class K0 { %s() {} m0() { %s } }" % (N, B),
      lambda x, b: Seq(Decl("KClass", "K0"), Block(Seq(PropKey(x, Fun(Skip)), PropKey("m0", Fun(b))))), group="property-key"),
    F("property-key:class-field", "non-enclosing", lambda N, B: "class K0 { %s = 1; static m0() { %s } }" % (N, B),
      lambda x, b: Seq(Decl("KClass", "K0"), Block(Seq(PropKey(x, Skip), PropKey("m0", Fun(b))))), group="property-key"),
    F("property-key:getter", "non-enclosing", lambda N, B: "v9 = { get %s() { %s return 1; } };" % (N, B), lambda x, b: PropKey(x, Fun(b)), group="property-key"),
    F("property-key:destructuring-source", "non-enclosing", lambda N, B: "const { %s: z0 } = o9; %s" % (N, B), lambda x, b: Seq(PropKey(x, Decl("KConst", "z0", True)), b), group="property-key"),
    F("property-key:parameter-destructuring-source", "non-enclosing", lambda N, B: "function f0({ %s: z0 }) { %s }" % (N, B),
      lambda x, b: Seq(Decl("KFunction", "f0"), Fun(PropKey(x, Bind("KParam", "z0", b, True)))), group="property-key"),
    F("property-key:ts-interface-member", "non-enclosing", lambda N, B: "interface I0 { %s: number } %s" % (N, B), lambda x, b: Seq(Decl("KType", "I0"), PropKey(x, Skip), b), media="ts", group="property-key"),
    F("property-key:ts-enum-member", "non-enclosing", lambda N, B: "enum E0 { %s } %s" % (N, B), lambda x, b: Seq(Decl("KTsEnum", "E0"), PropKey(x, Skip), b), media="ts", group="property-key"),
    F("member-name", "non-enclosing", lambda N, B: "o9.%s = 1; %s" % (N, B), lambda x, b: Seq(Member(Ref("o9"), x), b), group="member-name"),
    F("member-name:optional-call", "non-enclosing", lambda N, B: "o9?.%s(); %s" % (N, B), lambda x, b: Seq(Member(Ref("o9"), x), b), group="member-name"),
    F("member-name:this", "non-enclosing", lambda N, B: "class K0 { m0() { this.%s = 1; %s } }" % (N, B),
      lambda x, b: Seq(Decl("KClass", "K0"), Block(PropKey("m0", Fun(Seq(Member(Skip, x), b))))), group="member-name"),
    F("label", "non-enclosing", lambda N, B: "%s: for (;;) { %s break %s; }" % (N, B, N), lambda x, b: Label(x, Block(b)), group="label"),
    F("import-external-name", "non-enclosing", lambda N, B: "import { %s as z0 } from 'm0'; %s" % (N, B), lambda x, b: Seq(PropKey(x, Decl("KImport", "z0")), b), module=True, group="module-alias"),
    F("export-alias", "non-enclosing", lambda N, B: "const z0 = 1; export { z0 as %s }; %s" % (N, B), lambda x, b: Seq(Decl("KConst", "z0"), PropKey(x, Ref("z0")), b), module=True, group="module-alias"),
]
FORM_BY_NAME = {f["name"]: f for f in FORMS}
assert len(FORM_BY_NAME) == len(FORMS)

# ----------------------------------------------------------------------------------------------
# Wrappers between binding and reference: (name, text(B), term(b), media)
# ----------------------------------------------------------------------------------------------
WRAPPERS = [
    ("block", lambda B: "{ %s }" % B, lambda b: Block(b), None),
    ("function", lambda B: "function w1() { %s }" % B, lambda b: Seq(Decl("KFunction", "w1"), Fun(b)), None),
    ("arrow", lambda B: "(() => { %s })();" % B, lambda b: Fun(b), None),
    ("class-method", lambda B: "class W2 { m1() { %s } }" % B, lambda b: Seq(Decl("KClass", "W2"), Block(PropKey("m1", Fun(b)))), None),
    ("class-static-block", lambda B: "class W3 { static { %s } }" % B, lambda b: Seq(Decl("KClass", "W3"), Block(Fun(b))), None),
    ("class-field-arrow", lambda B: "class W4 { f1 = () => { %s }; }" % B, lambda b: Seq(Decl("KClass", "W4"), Block(PropKey("f1", Fun(b)))), None),
    ("if", lambda B: "if (c9) { %s }" % B, lambda b: Block(b), None),
    ("else", lambda B: "if (c9) {} else { %s }" % B, lambda b: Seq(Block(Skip), Block(b)), None),
    ("for", lambda B: "for (;c9;) { %s }" % B, lambda b: Block(b), None),
    ("for-of", lambda B: "for (const i1 of o9) { %s }" % B, lambda b: Bind("KLoop", "i1", Block(b)), None),
    ("while", lambda B: "while (c9) { %s }" % B, lambda b: Block(b), None),
    ("do-while", lambda B: "do { %s } while (c9);" % B, lambda b: Block(b), None),
    ("try", lambda B: "try { %s } catch {}" % B, lambda b: Seq(Block(b), Block(Skip)), None),
    ("catch", lambda B: "try {} catch (e1) { %s }" % B, lambda b: Seq(Block(Skip), Bind("KCatch", "e1", Block(b))), None),
    ("finally", lambda B: "try {} finally { %s }" % B, lambda b: Seq(Block(Skip), Block(b)), None),
    ("switch-case", lambda B: "switch (c9) { case 1: %s }" % B, lambda b: Block(b), None),
    ("template", lambda B: "v9 = `a${function () { %s }}b`;" % B, lambda b: Fun(b), None),
    ("object-method", lambda B: "v9 = { m2() { %s } };" % B, lambda b: PropKey("m2", Fun(b)), None),
    ("getter", lambda B: "v9 = { get g1() { %s return 1; } };" % B, lambda b: PropKey("g1", Fun(b)), None),
    ("label", lambda B: "l1: { %s }" % B, lambda b: Label("l1", Block(b)), None),
    ("async-generator", lambda B: "(async function* () { %s });" % B, lambda b: Fun(b), None),
    ("ts-namespace", lambda B: "namespace W5 { %s }" % B, lambda b: Seq(Decl("KTsNamespace", "W5"), Block(b)), "ts"),
]
WRAP_BY_NAME = {w[0]: w for w in WRAPPERS}


def ref_term(tpl, x):
    """MiniScope term of a reference template (only the reference's position matters)."""
    if tpl.startswith("(async"):
        return Fun(Member(Ref(x), "p9"))
    if "{ @ }" in tpl:
        return Ref(x)          # shorthand: a reference (and a key that binds nothing)
    return Member(Ref(x), "p9") if "@." in tpl or "@[" in tpl else Ref(x)


def media_for(ref_media, form, wraps, k):
    need_ts = ref_media == "ts" or form["media"] == "ts" or any(WRAP_BY_NAME[w][3] == "ts" for w in wraps)
    if need_ts:
        return "ts"          # `<T>` arrows, `enum` etc. parse the same in tsx; the reference templates contain no `<`
    return ("js", "ts", "tsx", "jsx")[k % 4]


def build(ref, form, outer, inner, k=0):
    """-> dict(src, media, ref_off, term, name) for one case."""
    fam, rule, name, tpl, rmedia = ref
    marker = "\u0001"
    body = tpl.replace("@", marker + name)
    term = ref_term(tpl, name)
    for w in reversed(inner):
        body = WRAP_BY_NAME[w][1](body)
        term = WRAP_BY_NAME[w][2](term)
    src = form["text"](name, body)
    term = form["term"](name, term)
    for w in reversed(outer):
        src = WRAP_BY_NAME[w][1](src)
        term = WRAP_BY_NAME[w][2](term)
    off = src.index(marker)
    src = src.replace(marker, "")
    return {"src": src, "media": media_for(rmedia, form, list(outer) + list(inner), k), "ref_off": off, "term": term, "name": name,
            "rule": rule, "family": fam, "tpl": tpl, "form": form["name"], "group": form["group"], "kind": form["kind"],
            "outer": list(outer), "inner": list(inner)}


def wrapper_chains(rng, tier):
    """depth 0, every depth-1 wrapper, and random compositions of depth 2..4."""
    chains = [[]] + [[w[0]] for w in WRAPPERS]
    n = 10 if tier == "quick" else 60
    for d in (2, 3, 4):
        for _ in range(n):
            chains.append([rng.choice(WRAPPERS)[0] for _ in range(d)])
    return chains


def generate(seed, tier):
    rng = random.Random(seed + 14)
    chains = wrapper_chains(rng, tier)
    cases = []
    k = 0
    for ref in REFS:
        for form in FORMS:
            if ref[4] == "ts" and form["media"] is None and form["module"] is False:
                pass
            # every form gets all depth-0/1 chains for one reference per rule, and a sample of the chains otherwise
            for ci, ch in enumerate(chains):
                first_of_rule = ref is next(r for r in REFS if r[1] == ref[1])
                if not first_of_rule and ci > 0 and rng.random() > (0.25 if tier == "quick" else 0.6):
                    continue
                if form["module"]:
                    outer = []
                else:
                    r = rng.random()
                    outer = [] if r < 0.6 else [rng.choice(WRAPPERS)[0] for _ in range(1 if r < 0.85 else 2)]
                cases.append(build(ref, form, outer, ch, k))
                k += 1
    return cases


# ----------------------------------------------------------------------------------------------
# Model run: vm_compute of the MiniScope resolver inside coqc (batch file under work/, not part of the project)
# ----------------------------------------------------------------------------------------------
def run_model(terms_with_names):
    """[(term, name)] -> [(verdict 'U'|'B', is_global_by_deno_ast_scope bool)] from coq/Scope/MiniScope.v (first reference to `name`)."""
    d = os.path.join(lib.WORK, "c14")
    os.makedirs(d, exist_ok=True)
    uniq, idx = {}, []
    for t, n in terms_with_names:
        table = {n: 0}

        def nm(x, table=table):
            return "[%d]" % table.setdefault(x, len(table))
        key = (coq_term(t, nm), "[0]")
        if key not in uniq:
            uniq[key] = len(uniq)
        idx.append(uniq[key])
    keys = list(uniq.keys())
    out = [None] * len(keys)
    CH = 1500
    chunks = [keys[i:i + CH] for i in range(0, len(keys), CH)]

    def one(ci):
        path = os.path.join(d, "Cases%d.v" % ci)
        with open(path, "w") as f:
            f.write("From V Require Import Common.Str Scope.MiniScope.\nOpen Scope N_scope.\n")
            f.write("Definition cases : list (term * str) := [\n")
            f.write(";\n".join("(%s, %s)" % (t, n) for t, n in chunks[ci]))
            f.write("].\nEval vm_compute in (map (fun c => probe (fst c) (snd c)) cases).\n")
        p = subprocess.run(["timeout", "600", "coqc", "-Q", lib.COQ, "V", path], cwd=d, stdout=subprocess.PIPE, stderr=subprocess.STDOUT, text=True)
        if p.returncode != 0:
            raise lib.Infra("coqc on the MiniScope case batch failed:\n" + p.stdout[-3000:])
        nums = re.findall(r"\b(\d+)%N|\b(\d+)\b", p.stdout.split("=", 1)[1].split(":")[0])
        vals = [int(a or b) for a, b in nums]
        if len(vals) != len(chunks[ci]):
            raise lib.Infra("could not parse the MiniScope batch output (%d values for %d cases)\n%s" % (len(vals), len(chunks[ci]), p.stdout[:500]))
        return vals
    from concurrent.futures import ThreadPoolExecutor
    with ThreadPoolExecutor(max_workers=lib.NCPU) as ex:
        res = list(ex.map(one, range(len(chunks))))
    flat = [v for r in res for v in r]
    # probe codes: 0 = no reference, 1 = Unresolved, 2 = Bound & recorded by deno_ast's Scope, 3 = Bound & not recorded
    return [flat[i] for i in idx]


def py_probe(term, name):
    out = []
    py_resolve_all(("Fun", term), [], out)
    for n, ks in out:
        if n == name:
            if ks is None:
                return 1
            return 2 if any(k in RECORDED for k in ks) else 3
    return 0


# ----------------------------------------------------------------------------------------------
# Proposed known findings of the CURRENT tree (see work/c14-proposed-known.json); the main engineer decides.
# ----------------------------------------------------------------------------------------------
PROPOSED_KNOWN = {}


def load_proposed():
    p = os.path.join(lib.WORK, "c14-proposed-known.json")
    if os.path.exists(p):
        PROPOSED_KNOWN.update(json.load(open(p)))


def classify(c, diags):
    """-> None | (class suffix, text).  diags: the rule's diagnostics."""
    off = c["ref_off"]
    at_ref = [d for d in diags if d["start"] is not None and d["start"] <= off < d["end"]]
    n = c["name"]
    # other diagnostics count only when they point at an occurrence of the global name (wrappers make prefer-primordials talk)
    elsewhere = [d for d in diags if d not in at_ref and d["start"] is not None and c["src"].encode()[d["start"]:d["start"] + len(n)] == n.encode()]
    if c["kind"] == "enclosing" and at_ref:
        return "shadowed-but-reported"
    if c["kind"] == "non-enclosing" and not at_ref:
        return "unbound-but-silent"
    if elsewhere and c["kind"] != "info":
        return "non-reference-reported"
    return None


def family_of(c):
    if c["family"] == FAM_PP:
        return "%s.%s" % (FAM_PP, PP_BRANCH[c["tpl"]])
    return c["family"]


def run_cases(cases):
    impl = lib.run_vh("lint", [{"src": c["src"], "media": c["media"], "rules": [c["rule"]]} for c in cases])
    ids = lib.run_vh("idents", [{"src": c["src"], "media": c["media"]} for c in cases])
    return impl, ids


if __name__ == "__main__":
    tier = sys.argv[2] if len(sys.argv) > 2 else "quick"
    cases = generate(int(sys.argv[1]) if len(sys.argv) > 1 else 1, tier)
    print(len(cases), "cases")
    t = time.time()
    impl, ids = run_cases(cases)
    print("impl %.1fs" % (time.time() - t))
    import collections
    tab = collections.Counter()
    ex = {}
    bad_parse = collections.Counter()
    swc = collections.Counter()
    for c, r, i in zip(cases, impl, ids):
        if "ok" not in r:
            bad_parse[(c["form"], tuple(c["inner"][:1]), json.dumps(r)[:80])] += 1
            continue
        diags = [d for d in r["ok"] if d["code"] == c["rule"]]
        cl = classify(c, diags)
        pm = py_probe(c["term"], c["name"])
        # swc's verdict for the reference
        me = [x for x in i.get("idents", []) if x[0] == c["ref_off"]]
        if me:
            sw = 1 if me[0][3] == i["unresolved"] else (2 if me[0][5] else 3)
            if sw != pm:
                swc[(c["form"], "model=%d swc=%d" % (pm, sw))] += 1
                ex.setdefault(("swc", c["form"]), c["src"])
        if cl:
            key = (family_of(c), c["group"], cl)
            tab[key] += 1
            ex.setdefault(key, (c["rule"], c["media"], c["src"]))
        if c["kind"] == "info":
            tab[("INFO", c["form"], c["family"], "reported" if any(d["start"] <= c["ref_off"] < d["end"] for d in diags) else "silent")] += 1
    rules_of = collections.defaultdict(set)
    for c, r in zip(cases, impl):
        if "ok" in r and classify(c, [d for d in r["ok"] if d["code"] == c["rule"]]):
            rules_of[(family_of(c), c["group"])].add(c["rule"] + " " + c["tpl"])
    for k, v in sorted(tab.items()):
        print(v, k, ex.get(k, ""), len(rules_of.get(k[:2], ())))
    print("parse problems:", len(bad_parse))
    for k, v in sorted(bad_parse.items())[:40]:
        print("  ", v, k)
    print("model vs swc mismatches:")
    for k, v in sorted(swc.items()):
        print("  ", v, k, ex.get(("swc", k[0])))
