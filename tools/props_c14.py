# C14 — Rules about global names respect lexical scoping.
#
# Proof stage: coq/Props/C14.v (MiniScope binding calculus, Scope/ReaderFacts.v over the regenerated Gen/Readers.v).
# Differential on the implementation: (rule, global name, reference template) x (binding form) x (nesting wrappers between
# binding and reference) -> expected SILENCE; the same name bound only in a sibling / non-enclosing scope, or used as a
# property key / member name / label -> expected REPORT exactly at the reference.  Every program is also written as a
# MiniScope term; the Coq resolver's verdict (vm_compute inside coqc) is compared with swc's resolver (harness `idents`:
# syntax context of the reference == unresolved context) and with deno_ast's `Scope::var` -- the model's assumptions about swc.
import json, os, random, re, subprocess, sys, time
import lib
from lib import log

try:
    from props import register
except ImportError:          # stand-alone exploration (python3 tools/props_c14.py ...)
    def register(_):
        return lambda f: f

sys.path.insert(0, os.path.join(lib.ROOT, "translate"))

# ----------------------------------------------------------------------------------------------
# MiniScope terms (python mirror of the constructors of coq/Scope/MiniScope.v; printed as Coq terms)
# ----------------------------------------------------------------------------------------------
def cps(s):
    return "[" + ";".join(str(ord(c)) for c in s) + "]"


def T(tag, *a):
    return (tag,) + a


def Ref(x): return T("Ref", x)
def Decl(k, x, pat=False): return T("Decl", k, pat, x)
def Bind(k, x, b, pat=False): return T("Bind", k, pat, x, b)
def Block(b): return T("Block", b)
def Fun(b): return T("Fun", b)
def PropKey(x, e): return T("PropKey", x, e)
def Member(e, x): return T("Member", e, x)
def Label(x, b): return T("Label", x, b)
Skip = T("Skip")


def Seq(*ts):
    ts = [t for t in ts if t is not None]
    r = ts[-1]
    for t in reversed(ts[:-1]):
        r = T("Seq", t, r)
    return r


def coq_term(t, nm=cps):
    """nm: how a name is printed (the batch run abbreviates names to one-element lists: only name identity matters)."""
    tag = t[0]
    if tag == "Ref":
        return "(Ref %s)" % nm(t[1])
    if tag == "Decl":
        return "(Decl (mkForm %s %s) %s)" % (t[1], "true" if t[2] else "false", nm(t[3]))
    if tag == "Bind":
        return "(Bind (mkForm %s %s) %s %s)" % (t[1], "true" if t[2] else "false", nm(t[3]), coq_term(t[4], nm))
    if tag in ("Block", "Fun"):
        return "(%s %s)" % (tag, coq_term(t[1], nm))
    if tag == "Seq":
        return "(Seq %s %s)" % (coq_term(t[1], nm), coq_term(t[2], nm))
    if tag == "PropKey":
        return "(PropKey %s %s)" % (nm(t[1]), coq_term(t[2], nm))
    if tag == "Member":
        return "(Member %s %s)" % (coq_term(t[1], nm), nm(t[2]))
    if tag == "Label":
        return "(Label %s %s)" % (nm(t[1]), coq_term(t[2], nm))
    if tag == "Skip":
        return "Skip"
    raise ValueError(tag)


# python mirror of the Coq resolver (only used to cross-check the coqc run and for stand-alone exploration)
VAR_SCOPED = {"KVar"}
TYPE_ONLY = {"KType"}          # declarations of the type namespace do not bind value references


def hoist_var(t):
    tag = t[0]
    if tag == "Decl":
        return [(t[3], t[1])] if t[1] in VAR_SCOPED else []
    if tag == "Bind":
        return hoist_var(t[4])
    if tag in ("Block", "Label"):
        return hoist_var(t[-1])
    if tag == "Seq":
        return hoist_var(t[1]) + hoist_var(t[2])
    if tag == "PropKey":
        return hoist_var(t[2])
    if tag == "Member":
        return hoist_var(t[1])
    return []


def hoist_lex(t):
    tag = t[0]
    if tag == "Decl":
        return [] if t[1] in VAR_SCOPED or t[1] in TYPE_ONLY else [(t[3], t[1])]
    if tag == "Seq":
        return hoist_lex(t[1]) + hoist_lex(t[2])
    if tag == "Label":
        return hoist_lex(t[2])
    return []


def py_resolve_all(t, env, out):
    """env: list of scopes (innermost first), a scope = list of (name, kind).  out: list of (name, innermost declaring scope's kinds | None)."""
    tag = t[0]
    if tag == "Ref":
        for sc in env:
            ks = [k for (n, k) in sc if n == t[1]]
            if ks:
                out.append((t[1], ks))
                return
        out.append((t[1], None))
    elif tag == "Bind":
        py_resolve_all(t[4], ([] if t[1] in TYPE_ONLY else [[(t[3], t[1])]]) + env, out)
    elif tag == "Block":
        py_resolve_all(t[1], [hoist_lex(t[1])] + env, out)
    elif tag == "Fun":
        py_resolve_all(t[1], [hoist_var(t[1]) + hoist_lex(t[1])] + env, out)
    elif tag == "Seq":
        py_resolve_all(t[1], env, out)
        py_resolve_all(t[2], env, out)
    elif tag == "PropKey":
        py_resolve_all(t[2], env, out)
    elif tag == "Member":
        py_resolve_all(t[1], env, out)
    elif tag == "Label":
        py_resolve_all(t[2], env, out)


# kinds deno_ast 0.46's Scope::analyze records (scopes.rs: visit_param, visit_var_decl, fn/class decl+expr, catch, imports,
# arrow params, interface/type alias).  Mirrors `recorded_deno_ast` of MiniScope.v.
RECORDED = {"KParam", "KConst", "KLet", "KVar", "KFunction", "KClass", "KImport", "KCatch", "KLoop", "KFnExprName", "KClassExprName"}

# ----------------------------------------------------------------------------------------------
# References: (family, rule, global name, statement template with @ = the reference identifier, media, MiniScope term of the reference)
# ----------------------------------------------------------------------------------------------
FAM_CTXT, FAM_VAR, FAM_PP, FAM_GA = "unresolved-ctxt-rules", "scope-var-rules", "prefer-primordials", "no-global-assign"
NONCONFIGURABLE_GLOBALS = {"undefined", "NaN", "Infinity"}


def ref_member(x): return Member(Ref(x), "p9")


REFS = [
    # rules that ask deno_ast's Scope (scope().var / is_global)
    (FAM_VAR, "no-window", "window", "@.p9;", None),
    (FAM_VAR, "no-window", "window", "@;", None),
    (FAM_VAR, "no-window", "window", "v9 = @.p9.q9(1);", None),
    (FAM_VAR, "no-window-prefix", "window", "@.fetch(1);", None),
    (FAM_VAR, "no-window-prefix", "window", "@['setTimeout'](f9);", None),
    (FAM_VAR, "no-console", "console", "@.log(1);", None),
    (FAM_VAR, "no-console", "console", "@;", None),
    (FAM_VAR, "no-new-symbol", "Symbol", "new @();", None),
    (FAM_VAR, "no-obj-calls", "Math", "@();", None),
    (FAM_VAR, "no-obj-calls", "JSON", "new @();", None),
    (FAM_VAR, "no-obj-calls", "Reflect", "v9 = @(1);", None),
    (FAM_VAR, "no-obj-calls", "Atomics", "@();", None),
    (FAM_VAR, "no-deprecated-deno-api", "Deno", "@.readAll(r9);", None),
    (FAM_VAR, "no-deprecated-deno-api", "Deno", "v9 = new @.Buffer();", None),
    (FAM_VAR, "no-deprecated-deno-api", "Deno", "let t9: @.File;", "ts"),
    (FAM_VAR, "no-regex-spaces", "RegExp", "v9 = new @('a  b');", None),
    (FAM_VAR, "no-regex-spaces", "RegExp", "@('a  b');", None),
    (FAM_VAR, "no-control-regex", "RegExp", "v9 = new @('\\\\x1f');", None),
    (FAM_VAR, "no-control-regex", "RegExp", "@('\\\\x1f');", None),
    # a regular expression literal as the first argument (the literal has its own diagnostic; the call is the reference)
    (FAM_VAR, "no-regex-spaces", "RegExp", "v9 = new @(/a  b/);", None),
    (FAM_VAR, "no-regex-spaces", "RegExp", "@(/a  b/, 'g');", None),
    (FAM_VAR, "no-control-regex", "RegExp", "v9 = new @(/\\x1f/);", None),
    (FAM_VAR, "no-sync-fn-in-async-fn", "Deno", "(async () => { @.readFileSync('a'); })();", None),
    (FAM_VAR, "no-sync-fn-in-async-fn", "Deno", "(async function () { await 1; @.statSync('a'); })();", None),
    # rules that compare the reference's syntax context with the unresolved context
    (FAM_CTXT, "no-process-global", "process", "@.env;", None),
    (FAM_CTXT, "no-process-global", "process", "v9 = @;", None),
    (FAM_CTXT, "no-process-global", "process", "v9 = { @ };", None),
    (FAM_CTXT, "no-node-globals", "Buffer", "@.from('a');", None),
    (FAM_CTXT, "no-node-globals", "global", "v9 = @;", None),
    (FAM_CTXT, "no-node-globals", "setImmediate", "@(f9);", None),
    (FAM_CTXT, "no-node-globals", "clearImmediate", "v9 = [@];", None),
    # the reference under a TypeScript angle-bracket assertion (.ts only) and as an assignment TARGET
    (FAM_CTXT, "no-process-global", "process", "(<any>@).env;", "ts"),
    (FAM_CTXT, "no-node-globals", "setImmediate", "v9 = <number>@(f9);", "ts"),
    (FAM_CTXT, "no-process-global", "process", "@ = null;", None),
    (FAM_CTXT, "no-node-globals", "Buffer", "[@] = o9;", None),
    (FAM_CTXT, "no-node-globals", "global", "({ @ } = o9);", None),
    (FAM_CTXT, "no-node-globals", "setImmediate", "({ a9: @ } = o9);", None),
    (FAM_CTXT, "no-process-global", "process", "for (@ in o9) {}", None),
    (FAM_CTXT, "no-process-global", "process", "@++;", None),
    # the local side of an export specifier without alias (module level only)
    (FAM_CTXT, "no-process-global", "process", "export { @ };", "top"),
    (FAM_CTXT, "no-node-globals", "Buffer", "export { @, setImmediate };", "top"),
    (FAM_CTXT, "no-node-globals", "global", "export { x9 as y9, @ };", "top"),
    # the reference spelled with a Unicode escape
    (FAM_CTXT, "no-process-global", "process", "@E.env;", None),
    (FAM_CTXT, "no-node-globals", "Buffer", "@E.from('a');", None),
    (FAM_CTXT, "no-node-globals", "global", "v9 = @E;", None),
    (FAM_VAR, "no-window", "window", "@E.p9;", None),
    (FAM_VAR, "no-console", "console", "@E.log(1);", None),
    (FAM_GA, "no-global-assign", "Array", "@E = 1;", None),
    (FAM_GA, "no-global-assign", "Array", "@ = 1;", None),
    (FAM_GA, "no-global-assign", "String", "@++;", None),
    (FAM_GA, "no-global-assign", "Object", "({ @ } = o9);", None),
    (FAM_GA, "no-global-assign", "Map", "[@] = o9;", None),
    # a bound target precedes / follows the global in the same pattern (the extra arrow only supplies the bound name l9)
    (FAM_GA, "no-global-assign", "Array", "((l9) => { [l9, @] = o9; })();", None),
    (FAM_GA, "no-global-assign", "Map", "((l9) => { ({ a: l9, b: @ } = o9); })();", None),
    (FAM_GA, "no-global-assign", "Object", "((l9) => { [[l9], { c: [@ = 1] }] = o9; })();", None),
    (FAM_GA, "no-global-assign", "String", "((l9) => { [@, l9] = o9; })();", None),
    (FAM_GA, "no-global-assign", "Set", "((l9) => { [l9, ...@] = o9; })();", None),
    # `undefined`, `NaN`, `Infinity`: non-configurable properties of the global object.  A top-level declaration of a SCRIPT does not
    # shadow them (swc's resolver leaves such references unresolved, correctly); these programs are therefore made modules (`export {}`).
    (FAM_GA, "no-global-assign", "undefined", "@ = 1;", None),
    (FAM_GA, "no-global-assign", "NaN", "@ += 1;", None),
    (FAM_GA, "no-global-assign", "Infinity", "[@] = o9;", None),
    # prefer-primordials (its own family: several handlers)
    (FAM_PP, "prefer-primordials", "parseInt", "@('1');", None),            # ident handler, GLOBAL_TARGETS (scope consulted)
    (FAM_PP, "prefer-primordials", "Array", "v9 = @;", None),
    (FAM_PP, "prefer-primordials", "Array", "@.from(o9);", None),           # member_expr handler, GLOBAL_TARGETS
    (FAM_PP, "prefer-primordials", "Symbol", "v9 = @.iterator;", None),
    (FAM_PP, "prefer-primordials", "Map", "v9 = new @();", None),           # ident handler, UNSAFE_CONSTRUCTOR_TARGETS
    (FAM_PP, "prefer-primordials", "Set", "v9 = new @(o9);", None),
]

# prefer-primordials reports several things per reference template; the sub-family names the handler branch
PP_BRANCH = {"@('1');": "ident-global", "v9 = @;": "ident-global", "@.from(o9);": "member-global",
             "v9 = @.iterator;": "member-global", "v9 = new @();": "unsafe-constructor", "v9 = new @(o9);": "unsafe-constructor"}

# ----------------------------------------------------------------------------------------------
# Binding forms.  text(N, B) -> program text with the body B inside the binding's scope (or beside it);
# term(x, b) -> MiniScope term.  kind: "enclosing" (expect SILENCE) | "non-enclosing" (expect REPORT) | "info" (type-only).
# ----------------------------------------------------------------------------------------------
def F(name, kind, text, term, media=None, module=False, group=None):
    return {"name": name, "kind": kind, "text": text, "term": term, "media": media, "module": module, "group": group or name}


def fn_params(label, params, pat=False, kind="KParam", group=None):
    group = group or label
    return [
        F("%s:function-declaration" % label, "enclosing", lambda N, B, p=params: "function f0(%s) { %s }" % (p.replace("NAME", N), B),
          lambda x, b, pat=pat, kind=kind: Seq(Decl("KFunction", "f0"), Fun(Bind(kind, x, b, pat))), group=group),
        F("%s:arrow" % label, "enclosing", lambda N, B, p=params: "((%s) => { %s });" % (p.replace("NAME", N), B),
          lambda x, b, pat=pat, kind=kind: Fun(Bind(kind, x, b, pat)), group=group),
        F("%s:class-method" % label, "enclosing", lambda N, B, p=params: "class K0 { m0(%s) { %s } }" % (p.replace("NAME", N), B),
          lambda x, b, pat=pat, kind=kind: Seq(Decl("KClass", "K0"), Block(PropKey("m0", Fun(Bind(kind, x, b, pat))))), group=group),
    ]


FORMS = []
FORMS += fn_params("parameter", "NAME")
FORMS += fn_params("parameter-default", "a0, NAME = 1")
FORMS += fn_params("parameter-rest", "a0, ...NAME")
FORMS += fn_params("parameter-destructured", "{ NAME }", pat=True)
FORMS += fn_params("parameter-destructured-deep-default", "{ k0: [NAME = 1] }", pat=True, group="parameter-destructured")
FORMS += fn_params("parameter-destructured-array-rest", "[, ...NAME]", pat=True, group="parameter-destructured")
FORMS += [
    F("parameter:function-expression", "enclosing", lambda N, B: "(function (%s) { %s });" % (N, B), lambda x, b: Fun(Bind("KParam", x, b)), group="parameter"),
    F("parameter:arrow-single", "enclosing", lambda N, B: "(%s => { %s });" % (N, B), lambda x, b: Fun(Bind("KParam", x, b)), group="parameter"),
    F("parameter:constructor", "enclosing", lambda N, B: "class K0 { constructor(%s) { %s } }" % (N, B),
      lambda x, b: Seq(Decl("KClass", "K0"), Block(PropKey("constructor", Fun(Bind("KParam", x, b))))), group="parameter"),
    F("parameter:object-method", "enclosing", lambda N, B: "({ m0(%s) { %s } });" % (N, B), lambda x, b: PropKey("m0", Fun(Bind("KParam", x, b))), group="parameter"),
    F("parameter:class-setter", "enclosing", lambda N, B: "class K0 { set s0(%s) { %s } }" % (N, B),
      lambda x, b: Seq(Decl("KClass", "K0"), Block(PropKey("s0", Fun(Bind("KParam", x, b))))), group="parameter"),
    F("parameter:async-generator", "enclosing", lambda N, B: "(async function* (%s) { %s });" % (N, B), lambda x, b: Fun(Bind("KParam", x, b)), group="parameter"),
    # const / let / var
    F("const", "enclosing", lambda N, B: "const %s = 1; %s" % (N, B), lambda x, b: Seq(Decl("KConst", x), b)),
    F("let", "enclosing", lambda N, B: "let %s; %s" % (N, B), lambda x, b: Seq(Decl("KLet", x), b)),
    F("var", "enclosing", lambda N, B: "var %s; %s" % (N, B), lambda x, b: Seq(Decl("KVar", x), b)),
    F("const:declared-after-use", "enclosing", lambda N, B: "%s const %s = 1;" % (B, N), lambda x, b: Seq(b, Decl("KConst", x)), group="const"),
    F("let:declared-after-use", "enclosing", lambda N, B: "%s let %s = 1;" % (B, N), lambda x, b: Seq(b, Decl("KLet", x)), group="let"),
    F("var:hoisted-declared-after-use", "enclosing", lambda N, B: "%s var %s = 1;" % (B, N), lambda x, b: Seq(b, Decl("KVar", x)), group="var-hoisting"),
    F("var:hoisted-from-nested-block", "enclosing", lambda N, B: "{ { var %s = 1; } } %s" % (N, B), lambda x, b: Seq(Block(Block(Decl("KVar", x))), b), group="var-hoisting"),
    F("var:hoisted-from-if-after-use", "enclosing", lambda N, B: "function f0() { %s if (c9) { var %s; } }" % (B, N),
      lambda x, b: Seq(Decl("KFunction", "f0"), Fun(Seq(b, Block(Decl("KVar", x))))), group="var-hoisting"),
    F("var:hoisted-from-for-head", "enclosing", lambda N, B: "for (var %s = 0; c9;) {} %s" % (N, B), lambda x, b: Seq(Block(Seq(Decl("KVar", x), Block(Skip))), b), group="var-hoisting"),
    F("var:hoisted-from-for-of-head", "enclosing", lambda N, B: "for (var %s of o9) {} %s" % (N, B), lambda x, b: Seq(Block(Seq(Decl("KVar", x), Block(Skip))), b), group="var-hoisting"),
    F("var:hoisted-from-catch-body", "enclosing", lambda N, B: "try {} catch (e0) { var %s; } %s" % (N, B),
      lambda x, b: Seq(Block(Skip), Bind("KCatch", "e0", Block(Decl("KVar", x))), b), group="var-hoisting"),
    F("const:destructuring-object", "enclosing", lambda N, B: "const { %s } = o9; %s" % (N, B), lambda x, b: Seq(Decl("KConst", x, True), b), group="destructuring"),
    F("const:destructuring-renamed", "enclosing", lambda N, B: "const { k0: %s } = o9; %s" % (N, B), lambda x, b: Seq(Decl("KConst", x, True), b), group="destructuring"),
    F("let:destructuring-array", "enclosing", lambda N, B: "let [, %s] = o9; %s" % (N, B), lambda x, b: Seq(Decl("KLet", x, True), b), group="destructuring"),
    F("var:destructuring-rest", "enclosing", lambda N, B: "var { k0, ...%s } = o9; %s" % (N, B), lambda x, b: Seq(Decl("KVar", "k0", True), Decl("KVar", x, True), b), group="destructuring"),
    F("const:destructuring-deep-default", "enclosing", lambda N, B: "const { k0: { j0: [%s = 1] } } = o9; %s" % (N, B), lambda x, b: Seq(Decl("KConst", x, True), b), group="destructuring"),
    F("const:destructuring-array-rest", "enclosing", lambda N, B: "const [a0, ...%s] = o9; %s" % (N, B), lambda x, b: Seq(Decl("KConst", "a0", True), Decl("KConst", x, True), b), group="destructuring"),
    # functions and classes
    F("function-declaration", "enclosing", lambda N, B: "function %s() {} %s" % (N, B), lambda x, b: Seq(Decl("KFunction", x), Fun(Skip), b)),
    F("function-declaration:hoisted", "enclosing", lambda N, B: "%s function %s() {}" % (B, N), lambda x, b: Seq(b, Decl("KFunction", x), Fun(Skip)), group="function-declaration"),
    F("function-declaration:own-body", "enclosing", lambda N, B: "function %s() { %s }" % (N, B), lambda x, b: Seq(Decl("KFunction", x), Fun(b)), group="function-declaration"),
    F("function-declaration:generator", "enclosing", lambda N, B: "function* %s() {} %s" % (N, B), lambda x, b: Seq(Decl("KFunction", x), Fun(Skip), b), group="function-declaration"),
    F("function-expression-name", "enclosing", lambda N, B: "(function %s() { %s });" % (N, B), lambda x, b: Bind("KFnExprName", x, Fun(b))),
    F("class-declaration", "enclosing", lambda N, B: "class %s {} %s" % (N, B), lambda x, b: Seq(Decl("KClass", x), Block(Skip), b)),
    F("class-declaration:own-method", "enclosing", lambda N, B: "class %s { m0() { %s } }" % (N, B), lambda x, b: Seq(Decl("KClass", x), Block(PropKey("m0", Fun(b)))), group="class-declaration"),
    F("class-expression-name", "enclosing", lambda N, B: "(class %s { m0() { %s } });" % (N, B), lambda x, b: Bind("KClassExprName", x, Block(PropKey("m0", Fun(b))))),
    F("let:same-named-class-expression", "enclosing", lambda N, B: "let %s = class %s {}; %s" % (N, N, B),
      lambda x, b: Seq(Decl("KSameNamedClassVar", x), Bind("KClassExprName", x, Block(Skip)), b), group="variable-initialised-with-same-named-class-expression"),
    # imports
    F("import-default", "enclosing", lambda N, B: "import %s from 'm0'; %s" % (N, B), lambda x, b: Seq(Decl("KImport", x), b), module=True, group="import"),
    F("import-named", "enclosing", lambda N, B: "import { %s } from 'm0'; %s" % (N, B), lambda x, b: Seq(Decl("KImport", x), b), module=True, group="import"),
    F("import-named-renamed", "enclosing", lambda N, B: "import { k0 as %s } from 'm0'; %s" % (N, B), lambda x, b: Seq(Decl("KImport", x), b), module=True, group="import"),
    F("import-namespace", "enclosing", lambda N, B: "import * as %s from 'm0'; %s" % (N, B), lambda x, b: Seq(Decl("KImport", x), b), module=True, group="import"),
    F("import-default:after-use", "enclosing", lambda N, B: "%s import %s from 'm0';" % (B, N), lambda x, b: Seq(b, Decl("KImport", x)), module=True, group="import"),
    # catch
    F("catch-binding", "enclosing", lambda N, B: "try {} catch (%s) { %s }" % (N, B), lambda x, b: Seq(Block(Skip), Bind("KCatch", x, Block(b)))),
    F("catch-binding:destructured", "enclosing", lambda N, B: "try {} catch ({ %s }) { %s }" % (N, B), lambda x, b: Seq(Block(Skip), Bind("KCatch", x, Block(b), True)), group="catch-binding"),
    # loops
    F("for-let", "enclosing", lambda N, B: "for (let %s = 0; c9;) { %s }" % (N, B), lambda x, b: Bind("KLoop", x, Block(b)), group="loop-binding"),
    F("for-of-const", "enclosing", lambda N, B: "for (const %s of o9) { %s }" % (N, B), lambda x, b: Bind("KLoop", x, Block(b)), group="loop-binding"),
    F("for-in-let", "enclosing", lambda N, B: "for (let %s in o9) { %s }" % (N, B), lambda x, b: Bind("KLoop", x, Block(b)), group="loop-binding"),
    F("for-of-var", "enclosing", lambda N, B: "for (var %s of o9) { %s }" % (N, B), lambda x, b: Block(Seq(Decl("KVar", x), Block(b))), group="loop-binding"),
    F("for-of-destructured", "enclosing", lambda N, B: "for (const { %s } of o9) { %s }" % (N, B), lambda x, b: Bind("KLoop", x, Block(b), True), group="loop-binding"),
    F("for-of-destructured-array", "enclosing", lambda N, B: "for (const [k0, %s] of o9) { %s }" % (N, B), lambda x, b: Bind("KLoop", "k0", Bind("KLoop", x, Block(b), True), True), group="loop-binding"),
    F("for-await-of", "enclosing", lambda N, B: "(async () => { for await (const %s of o9) { %s } });" % (N, B), lambda x, b: Fun(Bind("KLoop", x, Block(b))), group="loop-binding"),
    # non-standard binding forms
    F("setter-parameter:object-literal", "enclosing", lambda N, B: "({ set s0(%s) { %s } });" % (N, B), lambda x, b: PropKey("s0", Fun(Bind("KSetterParam", x, b))), group="setter-parameter"),
    F("ts-enum", "enclosing", lambda N, B: "enum %s { A0 } %s" % (N, B), lambda x, b: Seq(Decl("KTsEnum", x), b), media="ts"),
    F("ts-enum:const", "enclosing", lambda N, B: "const enum %s { A0 } %s" % (N, B), lambda x, b: Seq(Decl("KTsEnum", x), b), media="ts", group="ts-enum"),
    F("ts-namespace", "enclosing", lambda N, B: "namespace %s { export const a0 = 1; } %s" % (N, B), lambda x, b: Seq(Decl("KTsNamespace", x), Block(Decl("KConst", "a0")), b), media="ts"),
    F("ts-namespace:own-body", "enclosing", lambda N, B: "namespace %s { %s }" % (N, B), lambda x, b: Seq(Decl("KTsNamespace", x), Block(b)), media="ts", group="ts-namespace"),
    F("ts-import-equals:require", "enclosing", lambda N, B: "import %s = require('m0'); %s" % (N, B), lambda x, b: Seq(Decl("KImportEquals", x), b), media="ts", module=True, group="ts-import-equals"),
    F("ts-import-equals:entity", "enclosing", lambda N, B: "import %s = N0.a0; %s" % (N, B), lambda x, b: Seq(Decl("KImportEquals", x), b), media="ts", module=True, group="ts-import-equals"),
    F("ts-parameter-property", "enclosing", lambda N, B: "class K0 { constructor(private %s: number) { %s } }" % (N, B),
      lambda x, b: Seq(Decl("KClass", "K0"), Block(PropKey("constructor", Fun(Bind("KParamProp", x, b))))), media="ts"),
    F("ts-parameter-property:readonly-default", "enclosing", lambda N, B: "class K0 { constructor(readonly %s = 1) { %s } }" % (N, B),
      lambda x, b: Seq(Decl("KClass", "K0"), Block(PropKey("constructor", Fun(Bind("KParamProp", x, b))))), media="ts", group="ts-parameter-property"),
    F("using", "enclosing", lambda N, B: "{ using %s = f9(); %s }" % (N, B), lambda x, b: Block(Seq(Decl("KUsing", x), b)), media="ts"),
    F("using:await", "enclosing", lambda N, B: "(async () => { await using %s = f9(); %s });" % (N, B), lambda x, b: Fun(Seq(Decl("KUsing", x), b)), media="ts", group="using"),
    F("ts-declare-const", "enclosing", lambda N, B: "declare const %s: number; %s" % (N, B), lambda x, b: Seq(Decl("KConst", x), b), media="ts", group="ts-ambient-value"),
    F("ts-declare-function", "enclosing", lambda N, B: "declare function %s(): void; %s" % (N, B), lambda x, b: Seq(Decl("KFunction", x), b), media="ts", group="ts-ambient-value"),
    F("ts-declare-class", "enclosing", lambda N, B: "declare class %s {} %s" % (N, B), lambda x, b: Seq(Decl("KClass", x), b), media="ts", group="ts-ambient-value"),
    F("ts-import-type", "enclosing", lambda N, B: "import type { %s } from 'm0'; %s" % (N, B), lambda x, b: Seq(Decl("KImport", x), b), media="ts", module=True, group="ts-import-type"),
    F("ts-import-type:default", "enclosing", lambda N, B: "import type %s from 'm0'; %s" % (N, B), lambda x, b: Seq(Decl("KImport", x), b), media="ts", module=True, group="ts-import-type"),
    # type-only bindings (the property does not say what they do to a VALUE reference: informational)
    F("ts-interface", "info", lambda N, B: "interface %s { a0: number } %s" % (N, B), lambda x, b: Seq(Decl("KType", x), b), media="ts", group="type-only"),
    F("ts-type-alias", "info", lambda N, B: "type %s = number; %s" % (N, B), lambda x, b: Seq(Decl("KType", x), b), media="ts", group="type-only"),
    F("ts-type-parameter", "info", lambda N, B: "function f0<%s>() { %s }" % (N, B), lambda x, b: Seq(Decl("KFunction", "f0"), Fun(Bind("KType", x, b))), media="ts", group="type-only"),
    # ------------------------------------------------------------------ non-enclosing: expect the REPORT
    F("none", "non-enclosing", lambda N, B: B, lambda x, b: b, group="no-binding"),
    F("sibling-block:const", "non-enclosing", lambda N, B: "{ const %s = 1; } %s" % (N, B), lambda x, b: Seq(Block(Decl("KConst", x)), b), group="sibling-scope"),
    F("sibling-block:let-after", "non-enclosing", lambda N, B: "%s { let %s = 1; }" % (B, N), lambda x, b: Seq(b, Block(Decl("KLet", x))), group="sibling-scope"),
    F("sibling-block:class", "non-enclosing", lambda N, B: "{ class %s {} } %s" % (N, B), lambda x, b: Seq(Block(Seq(Decl("KClass", x), Block(Skip))), b), group="sibling-scope"),
    F("sibling-function:parameter", "non-enclosing", lambda N, B: "function s0(%s) {} %s" % (N, B), lambda x, b: Seq(Decl("KFunction", "s0"), Fun(Bind("KParam", x, Skip)), b), group="sibling-scope"),
    F("sibling-function:var", "non-enclosing", lambda N, B: "function s0() { var %s; } %s" % (N, B), lambda x, b: Seq(Decl("KFunction", "s0"), Fun(Decl("KVar", x)), b), group="sibling-scope"),
    F("sibling-function:var-in-arrow-after", "non-enclosing", lambda N, B: "%s (() => { { var %s = 1; } });" % (B, N), lambda x, b: Seq(b, Fun(Block(Decl("KVar", x)))), group="sibling-scope"),
    F("sibling-function:inner-function-declaration", "non-enclosing", lambda N, B: "function s0() { function %s() {} } %s" % (N, B),
      lambda x, b: Seq(Decl("KFunction", "s0"), Fun(Seq(Decl("KFunction", x), Fun(Skip))), b), group="sibling-scope"),
    F("sibling-arrow:parameter", "non-enclosing", lambda N, B: "((%s) => %s); %s" % (N, N, B), lambda x, b: Seq(Fun(Bind("KParam", x, Skip)), b), group="sibling-scope"),
    F("sibling-arrow:destructured-parameter", "non-enclosing", lambda N, B: "(({ %s }) => 1); %s" % (N, B), lambda x, b: Seq(Fun(Bind("KParam", x, Skip, True)), b), group="sibling-scope"),
    F("function-expression-name:outside", "non-enclosing", lambda N, B: "(function %s() {}); %s" % (N, B), lambda x, b: Seq(Bind("KFnExprName", x, Fun(Skip)), b), group="sibling-scope"),
    F("class-expression-name:outside", "non-enclosing", lambda N, B: "v9 = class %s {}; %s" % (N, B), lambda x, b: Seq(Bind("KClassExprName", x, Block(Skip)), b), group="sibling-scope"),
    F("catch-binding:outside", "non-enclosing", lambda N, B: "try { %s } catch (%s) {}" % (B, N), lambda x, b: Seq(Block(b), Bind("KCatch", x, Block(Skip))), group="sibling-scope"),
    F("catch-binding:after", "non-enclosing", lambda N, B: "try {} catch (%s) {} %s" % (N, B), lambda x, b: Seq(Block(Skip), Bind("KCatch", x, Block(Skip)), b), group="sibling-scope"),
    F("for-of-const:after", "non-enclosing", lambda N, B: "for (const %s of o9) {} %s" % (N, B), lambda x, b: Seq(Bind("KLoop", x, Block(Skip)), b), group="sibling-scope"),
    F("for-let:after", "non-enclosing", lambda N, B: "for (let %s = 0; c9;) {} %s" % (N, B), lambda x, b: Seq(Bind("KLoop", x, Block(Skip)), b), group="sibling-scope"),
    F("method-parameter:sibling-method", "non-enclosing", lambda N, B: "class K0 { a0(%s) {} m0() { %s } }" % (N, B),
      lambda x, b: Seq(Decl("KClass", "K0"), Block(Seq(PropKey("a0", Fun(Bind("KParam", x, Skip))), PropKey("m0", Fun(b))))), group="sibling-scope"),
    F("setter-parameter:sibling", "non-enclosing", lambda N, B: "({ set s0(%s) {} }); %s" % (N, B), lambda x, b: Seq(PropKey("s0", Fun(Bind("KSetterParam", x, Skip))), b), group="sibling-scope"),
    F("import-in-ambient-module-block:default", "non-enclosing", lambda N, B: "declare module 'x0' { import %s from 'm0'; export const q0: number; } %s" % (N, B),
      lambda x, b: Seq(Block(Decl("KImport", x)), b), media="ts", module=True, group="sibling-scope"),
    F("import-in-ambient-module-block:namespace", "non-enclosing", lambda N, B: "declare module 'x0' { import * as %s from 'm0'; } %s" % (N, B),
      lambda x, b: Seq(Block(Decl("KImport", x)), b), media="ts", module=True, group="sibling-scope"),
    F("ts-enum:sibling-block", "non-enclosing", lambda N, B: "{ enum %s { A0 } } %s" % (N, B), lambda x, b: Seq(Block(Decl("KTsEnum", x)), b), media="ts", group="sibling-scope"),
    # property keys, member names, labels
    F("property-key:object-literal", "non-enclosing", lambda N, B: "v9 = { %s: 1 }; %s" % (N, B), lambda x, b: Seq(PropKey(x, Skip), b), group="property-key"),
    F("property-key:enclosing-object-method", "non-enclosing", lambda N, B: "({ %s() { %s } });" % (N, B), lambda x, b: PropKey(x, Fun(b)), group="property-key"),
    F("property-key:class-method", "non-enclosing", lambda N, B: "class K0 { %s() {} m0() { %s } }" % (N, B),
      lambda x, b: Seq(Decl("KClass", "K0"), Block(Seq(PropKey(x, Fun(Skip)), PropKey("m0", Fun(b))))), group="property-key"),
    F("property-key:class-field", "non-enclosing", lambda N, B: "class K0 { %s = 1; static m0() { %s } }" % (N, B),
      lambda x, b: Seq(Decl("KClass", "K0"), Block(Seq(PropKey(x, Skip), PropKey("m0", Fun(b))))), group="property-key"),
    F("property-key:getter", "non-enclosing", lambda N, B: "v9 = { get %s() { %s return 1; } };" % (N, B), lambda x, b: PropKey(x, Fun(b)), group="property-key"),
    F("property-key:destructuring-source", "non-enclosing", lambda N, B: "const { %s: z0 } = o9; %s" % (N, B), lambda x, b: Seq(PropKey(x, Decl("KConst", "z0", True)), b), group="property-key"),
    F("property-key:parameter-destructuring-source", "non-enclosing", lambda N, B: "function f0({ %s: z0 }) { %s }" % (N, B),
      lambda x, b: Seq(Decl("KFunction", "f0"), Fun(PropKey(x, Bind("KParam", "z0", b, True)))), group="property-key"),
    F("property-key:ts-interface-member", "non-enclosing", lambda N, B: "interface I0 { %s: number } %s" % (N, B), lambda x, b: Seq(Decl("KType", "I0"), PropKey(x, Skip), b), media="ts", group="property-key"),
    F("property-key:ts-enum-member", "non-enclosing", lambda N, B: "enum E0 { %s } %s" % (N, B), lambda x, b: Seq(Decl("KTsEnum", "E0"), PropKey(x, Skip), b), media="ts", group="property-key"),
    F("member-name", "non-enclosing", lambda N, B: "o9.%s = 1; %s" % (N, B), lambda x, b: Seq(Member(Ref("o9"), x), b), group="member-name"),
    F("member-name:optional-call", "non-enclosing", lambda N, B: "o9?.%s(); %s" % (N, B), lambda x, b: Seq(Member(Ref("o9"), x), b), group="member-name"),
    F("member-name:this", "non-enclosing", lambda N, B: "class K0 { m0() { this.%s = 1; %s } }" % (N, B),
      lambda x, b: Seq(Decl("KClass", "K0"), Block(PropKey("m0", Fun(Seq(Member(Skip, x), b))))), group="member-name"),
    F("label", "non-enclosing", lambda N, B: "%s: for (;;) { %s break %s; }" % (N, B, N), lambda x, b: Label(x, Block(b)), group="label"),
    F("import-external-name", "non-enclosing", lambda N, B: "import { %s as z0 } from 'm0'; %s" % (N, B), lambda x, b: Seq(PropKey(x, Decl("KImport", "z0")), b), module=True, group="module-alias"),
    F("export-alias", "non-enclosing", lambda N, B: "const z0 = 1; export { z0 as %s }; %s" % (N, B), lambda x, b: Seq(Decl("KConst", "z0"), PropKey(x, Ref("z0")), b), module=True, group="module-alias"),
]
FORM_BY_NAME = {f["name"]: f for f in FORMS}
assert len(FORM_BY_NAME) == len(FORMS)

# ----------------------------------------------------------------------------------------------
# Wrappers between binding and reference: (name, text(B), term(b), media)
# ----------------------------------------------------------------------------------------------
WRAPPERS = [
    ("block", lambda B: "{ %s }" % B, lambda b: Block(b), None),
    ("function", lambda B: "function w1() { %s }" % B, lambda b: Seq(Decl("KFunction", "w1"), Fun(b)), None),
    ("arrow", lambda B: "(() => { %s })();" % B, lambda b: Fun(b), None),
    ("class-method", lambda B: "class W2 { m1() { %s } }" % B, lambda b: Seq(Decl("KClass", "W2"), Block(PropKey("m1", Fun(b)))), None),
    ("class-static-block", lambda B: "class W3 { static { %s } }" % B, lambda b: Seq(Decl("KClass", "W3"), Block(Fun(b))), None),
    ("class-field-arrow", lambda B: "class W4 { f1 = () => { %s }; }" % B, lambda b: Seq(Decl("KClass", "W4"), Block(PropKey("f1", Fun(b)))), None),
    ("if", lambda B: "if (c9) { %s }" % B, lambda b: Block(b), None),
    ("else", lambda B: "if (c9) {} else { %s }" % B, lambda b: Seq(Block(Skip), Block(b)), None),
    ("for", lambda B: "for (;c9;) { %s }" % B, lambda b: Block(b), None),
    ("for-of", lambda B: "for (const i1 of o9) { %s }" % B, lambda b: Bind("KLoop", "i1", Block(b)), None),
    ("while", lambda B: "while (c9) { %s }" % B, lambda b: Block(b), None),
    ("do-while", lambda B: "do { %s } while (c9);" % B, lambda b: Block(b), None),
    ("try", lambda B: "try { %s } catch {}" % B, lambda b: Seq(Block(b), Block(Skip)), None),
    ("catch", lambda B: "try {} catch (e1) { %s }" % B, lambda b: Seq(Block(Skip), Bind("KCatch", "e1", Block(b))), None),
    ("finally", lambda B: "try {} finally { %s }" % B, lambda b: Seq(Block(Skip), Block(b)), None),
    ("switch-case", lambda B: "switch (c9) { case 1: %s }" % B, lambda b: Block(b), None),
    ("template", lambda B: "v9 = `a${function () { %s }}b`;" % B, lambda b: Fun(b), None),
    ("object-method", lambda B: "v9 = { m2() { %s } };" % B, lambda b: PropKey("m2", Fun(b)), None),
    ("getter", lambda B: "v9 = { get g1() { %s return 1; } };" % B, lambda b: PropKey("g1", Fun(b)), None),
    ("label", lambda B: "l1: { %s }" % B, lambda b: Label("l1", Block(b)), None),
    ("async-generator", lambda B: "(async function* () { %s });" % B, lambda b: Fun(b), None),
    ("ts-namespace", lambda B: "namespace W5 { %s }" % B, lambda b: Seq(Decl("KTsNamespace", "W5"), Block(b)), "ts"),
]
WRAP_BY_NAME = {w[0]: w for w in WRAPPERS}


def ref_term(tpl, x):
    """MiniScope term of a reference template (only the reference's position matters)."""
    if tpl.startswith("(async"):
        return Fun(Member(Ref(x), "p9"))
    if "{ @ }" in tpl:
        return Ref(x)          # shorthand: a reference (and a key that binds nothing)
    return Member(Ref(x), "p9") if "@." in tpl or "@[" in tpl else Ref(x)


def media_for(ref_media, form, wraps, k):
    need_ts = ref_media == "ts" or form["media"] == "ts" or any(WRAP_BY_NAME[w][3] == "ts" for w in wraps)
    if need_ts:
        return "ts"          # `<T>` arrows, `enum` etc. parse the same in tsx; the reference templates contain no `<`
    return ("js", "ts", "tsx", "jsx")[k % 4]


def build(ref, form, outer, inner, k=0):
    """-> dict(src, media, ref_off, term, name) for one case."""
    fam, rule, name, tpl, rmedia = ref
    marker = "\u0001"
    # "@E": the reference is written with a Unicode escape (`\u{70}rocess`); the identifier NAME is the same
    spelled = name if "@E" not in tpl else ("\\u{%x}" % ord(name[0])) + name[1:]
    body = tpl.replace("@E", "@").replace("@", marker + spelled)
    term = ref_term(tpl, name)
    for w in reversed(inner):
        body = WRAP_BY_NAME[w][1](body)
        term = WRAP_BY_NAME[w][2](term)
    src = form["text"](name, body)
    term = form["term"](name, term)
    for w in reversed(outer):
        src = WRAP_BY_NAME[w][1](src)
        term = WRAP_BY_NAME[w][2](term)
    if name in NONCONFIGURABLE_GLOBALS:
        src += " export {};"
    off = src.index(marker)
    src = src.replace(marker, "")
    return {"src": src, "media": media_for(rmedia, form, list(outer) + list(inner), k), "ref_off": off, "term": term, "name": name,
            "rule": rule, "family": fam, "tpl": tpl, "form": form["name"], "group": form["group"], "kind": form["kind"],
            "outer": list(outer), "inner": list(inner)}


def wrapper_chains(rng, tier):
    """depth 0, every depth-1 wrapper, and random compositions of depth 2..4."""
    chains = [[]] + [[w[0]] for w in WRAPPERS]
    n = 10 if tier == "quick" else 60
    for d in (2, 3, 4):
        for _ in range(n):
            chains.append([rng.choice(WRAPPERS)[0] for _ in range(d)])
    # very deep nesting between binding and reference (a traversal that gives up below some depth)
    chains += [["arrow"] * 100, ["block"] * 300, ["if"] * 260, ["function", "block", "arrow"] * 40]
    return chains


def generate(seed, tier):
    rng = random.Random(seed + 14)
    chains = wrapper_chains(rng, tier)
    cases = []
    k = 0
    for ref in REFS:
        for form in FORMS:
            if ref[4] == "top":
                # a module-level-only reference position (export specifier): only binding forms that leave the body at the top level
                probe = form["text"]("N9", "\u0002")
                pre = probe[:probe.index("\u0002")]
                if pre.count("{") != pre.count("}") or pre.count("(") != pre.count(")") or form["media"] == "ts":
                    continue
                c = build((ref[0], ref[1], ref[2], ref[3], None), form, [], [], k)
                c["media"] = "ts" if k % 2 else "js"
                cases.append(c)
                k += 1
                continue
            # every form gets all depth-0/1 chains for one reference per rule, and a sample of the chains otherwise
            for ci, ch in enumerate(chains):
                first_of_rule = ref is next(r for r in REFS if r[1] == ref[1])
                if not first_of_rule and ci > 0 and rng.random() > (0.25 if tier == "quick" else 0.6):
                    continue
                if form["module"]:
                    outer = []
                else:
                    r = rng.random()
                    outer = [] if r < 0.6 else [rng.choice(WRAPPERS)[0] for _ in range(1 if r < 0.85 else 2)]
                cases.append(build(ref, form, outer, ch, k))
                k += 1
    return cases


# ----------------------------------------------------------------------------------------------
# Model run: vm_compute of the MiniScope resolver inside coqc (batch file under work/, not part of the project)
# ----------------------------------------------------------------------------------------------
def run_model(terms_with_names):
    """[(term, name)] -> [(verdict 'U'|'B', is_global_by_deno_ast_scope bool)] from coq/Scope/MiniScope.v (first reference to `name`)."""
    d = os.path.join(lib.WORK, "c14")
    os.makedirs(d, exist_ok=True)
    uniq, idx = {}, []
    for t, n in terms_with_names:
        table = {n: 0}

        def nm(x, table=table):
            return "[%d]" % table.setdefault(x, len(table))
        key = (coq_term(t, nm), "[0]")
        if key not in uniq:
            uniq[key] = len(uniq)
        idx.append(uniq[key])
    keys = list(uniq.keys())
    out = [None] * len(keys)
    CH = 1500
    chunks = [keys[i:i + CH] for i in range(0, len(keys), CH)]

    def one(ci):
        path = os.path.join(d, "Cases%d.v" % ci)
        with open(path, "w") as f:
            f.write("From V Require Import Common.Str Scope.MiniScope.\nOpen Scope N_scope.\n")
            f.write("Definition cases : list (term * str) := [\n")
            f.write(";\n".join("(%s, %s)" % (t, n) for t, n in chunks[ci]))
            f.write("].\nEval vm_compute in (map (fun c => probe (fst c) (snd c)) cases).\n")
        p = subprocess.run(["timeout", "600", "coqc", "-Q", lib.COQ, "V", path], cwd=d, stdout=subprocess.PIPE, stderr=subprocess.STDOUT, text=True)
        if p.returncode != 0:
            raise lib.Infra("coqc on the MiniScope case batch failed:\n" + p.stdout[-3000:])
        nums = re.findall(r"\b(\d+)%N|\b(\d+)\b", p.stdout.split("=", 1)[1].split(":")[0])
        vals = [int(a or b) for a, b in nums]
        if len(vals) != len(chunks[ci]):
            raise lib.Infra("could not parse the MiniScope batch output (%d values for %d cases)\n%s" % (len(vals), len(chunks[ci]), p.stdout[:500]))
        return vals
    from concurrent.futures import ThreadPoolExecutor
    with ThreadPoolExecutor(max_workers=lib.NCPU) as ex:
        res = list(ex.map(one, range(len(chunks))))
    flat = [v for r in res for v in r]
    # probe codes: 0 = no reference, 1 = Unresolved, 2 = Bound & recorded by deno_ast's Scope, 3 = Bound & not recorded
    return [flat[i] for i in idx]


def py_probe(term, name):
    out = []
    py_resolve_all(("Fun", term), [], out)
    for n, ks in out:
        if n == name:
            if ks is None:
                return 1
            return 2 if any(k in RECORDED for k in ks) else 3
    return 0


# ----------------------------------------------------------------------------------------------
# Judging
# ----------------------------------------------------------------------------------------------
# How each rule family decides (the MODEL of the implementation; the property's oracle is `kind`):
#   probe 1 = unresolved, 2 = bound & recorded by deno_ast, 3 = bound by a form deno_ast's Scope does not record
MECHANISM = {
    FAM_VAR: lambda pr: pr in (1, 3),                       # scope().var(id).is_none() / is_global(id)
    FAM_CTXT: lambda pr: pr == 1,                           # id.ctxt() == unresolved_ctxt()
    FAM_GA: lambda pr: pr == 1,                             # both tests
    FAM_PP + ".ident-global": lambda pr: pr in (1, 3),      # GLOBAL_TARGETS && !is_shadowed
    FAM_PP + ".member-global": lambda pr: True,             # no scope test at all
    FAM_PP + ".unsafe-constructor": lambda pr: True,
}


def family_of(c):
    if c["family"] == FAM_PP:
        return "%s.%s" % (FAM_PP, PP_BRANCH[c["tpl"]])
    return c["family"]


def judge(c, diags):
    """-> (verdict | None, reported_at_reference: bool, diagnostics elsewhere on an occurrence of the name)"""
    off, n = c["ref_off"], c["name"]
    b = c["src"].encode()
    at_ref = [d for d in diags if d["start"] is not None and d["start"] <= off < d["end"]]
    # other diagnostics count only when they point at an occurrence of the global name (wrappers make prefer-primordials talk)
    elsewhere = [d for d in diags if d not in at_ref and d["start"] is not None and b[d["start"]:d["start"] + len(n)] == n.encode()]
    v = None
    if c["kind"] == "enclosing" and at_ref:
        v = "shadowed-but-reported"
    elif c["kind"] == "non-enclosing" and not at_ref:
        v = "unbound-but-silent"
    return v, bool(at_ref), elsewhere


def run_cases(cases):
    impl = lib.run_vh("lint", [{"src": c["src"], "media": c["media"], "rules": [c["rule"]]} for c in cases])
    ids = lib.run_vh("idents", [{"src": c["src"], "media": c["media"]} for c in cases])
    return impl, ids


def analyse(cases, impl, ids, model):
    """-> dict with property failures grouped into classes, model/swc mismatches, mechanism mismatches, statistics."""
    import collections
    fails = collections.defaultdict(list)        # (family, group, verdict) -> [case index]
    nonref = collections.defaultdict(list)       # (family-top, form) -> [case index]
    templates_in = collections.defaultdict(set)  # (family, group) -> all (rule, tpl) exercised
    swc_mism, mech_mism, parse_bad = [], [], []
    info = collections.Counter()
    dist = collections.Counter()
    nontrivial = set()
    for k, (c, r, i, pm) in enumerate(zip(cases, impl, ids, model)):
        if r is None or "ok" not in r:
            parse_bad.append({"src": c["src"], "media": c["media"], "result": r})
            continue
        fam = family_of(c)
        templates_in[(fam, c["group"])].add((c["rule"], c["tpl"]))
        diags = [d for d in r["ok"] if d["code"] == c["rule"]]
        v, at_ref, elsewhere = judge(c, diags)
        dist["%s/%s/depth%d" % (c["kind"], c["family"], len(c["inner"]))] += 1
        type_pos = c["tpl"].startswith("let t9:")
        # (1) the model's assumption about swc: resolver verdict + what deno_ast's Scope sees
        me = [x for x in (i or {}).get("idents", []) if x[0] == c["ref_off"]]
        if not me:
            swc_mism.append({"src": c["src"], "media": c["media"], "why": "reference identifier not found by `idents`", "idents": i})
        elif not (c["kind"] == "info" and type_pos):
            sw = 1 if me[0][3] == i["unresolved"] else (2 if me[0][5] else 3)
            if sw != pm:
                swc_mism.append({"src": c["src"], "media": c["media"], "form": c["form"], "model_probe": pm, "swc_probe": sw})
        if c["kind"] == "info":
            info["%s: %s reference, %s -> %s" % (c["form"], "type" if type_pos else "value", c["family"], "reported" if at_ref else "silent")] += 1
            continue
        # (2) the rule behaves as its modelled mechanism says
        if MECHANISM[fam](pm) != at_ref:
            mech_mism.append({"src": c["src"], "media": c["media"], "rule": c["rule"], "family": fam, "model_probe": pm, "reported": at_ref})
        # (3) the property
        if v:
            fails[(fam, c["group"], v)].append(k)
        else:
            nontrivial.add((c["rule"], c["form"], tuple(c["inner"]), tuple(c["outer"])))
        for d in elsewhere:
            key = c["form"] if c["group"] in ("property-key", "module-alias") else c["form"].split(":")[0]
            nonref[(c["family"].split(".")[0], key)].append(k)
            break
    return {"fails": fails, "nonref": nonref, "templates_in": templates_in, "swc_mism": swc_mism, "mech_mism": mech_mism,
            "parse_bad": parse_bad, "info": info, "dist": dist, "nontrivial": nontrivial}


ENCLOSING_GROUPS = sorted({f["group"] for f in FORMS if f["kind"] == "enclosing"})


def classes_of(an, cases):
    """property failures -> {class: [case index]}.  A class names rule family x binding form x direction; when only SOME of the
    family's rules/templates fail for a binding form the class names the rule instead (so that a rule that newly forgets its
    scope check cannot hide behind a family-wide known class); a handler that ignores scoping for EVERY binding form is one
    class `...:every-binding-form:...`."""
    out = {}
    by_fam = {}
    for (fam, group, v), ks in an["fails"].items():
        by_fam.setdefault((fam, v), {})[group] = ks
    for (fam, v), groups in by_fam.items():
        full = {}
        for group, ks in groups.items():
            failing = {(cases[k]["rule"], cases[k]["tpl"]) for k in ks}
            if failing == an["templates_in"][(fam, group)]:
                full[group] = ks
            else:
                for k in ks:
                    out.setdefault("C14.%s:%s:%s" % (cases[k]["rule"], group, v), []).append(k)
        if v == "shadowed-but-reported" and set(full) == set(ENCLOSING_GROUPS):
            out["C14.%s:every-binding-form:%s" % (fam, v)] = [k for ks in full.values() for k in ks]
        else:
            for group, ks in full.items():
                out["C14.%s:%s:%s" % (fam, group, v)] = ks
    for (fam, form), ks in an["nonref"].items():
        out["C14.%s:%s:non-reference-reported" % (fam, form)] = ks
    return out


@register("C14")
def c14(ctx):
    import gen_readers
    ctx.assumptions += [
        "swc's resolver and deno_ast's Scope::analyze are MODELLED (coq/Scope/MiniScope.v): the model's verdict for the reference of every generated program "
        "is compared with the syntax context swc assigned and with deno_ast's Scope::var on every run (harness `idents`)",
        "MiniScope restrictions: function declarations in blocks are block scoped (no Annex B hoisting), type-only declarations do not bind value references, "
        "no `with`/direct eval, parameter default expressions share the function scope",
        "the rules' handlers are not modelled individually: what is proved is the scoping discipline of the two query schemes; that every comparison of an "
        "identifier with a global name sits in a guard region that consults the scope analysis is a token-level scan (coq/Gen/Readers.v), coarse by construction",
    ]
    info = gen_readers.generate()
    ctx.obligation("translator: coq/Gen/Readers.v regenerated from src/rules/*.rs + src/swc_util.rs (%d comparison sites in %d rules, %d unscoped, %d unclassified)"
                   % (len(info["c14_sites"]), len(info["c14_rules"]), sum(1 for s in info["c14_sites"] if not s[4]), len(info["c14_unknown"])),
                   len(info["c14_sites"]) > 0, "")
    ctx.proof_stage("C14", ["Scope/MiniScope.vo", "Scope/ReaderFacts.vo"])
    cases = generate(ctx.seed, ctx.tier)
    t0 = time.time()
    impl, ids = run_cases(cases)
    log("[C14] %d cases linted in %.1fs" % (len(cases), time.time() - t0))
    t0 = time.time()
    model = run_model([(c["term"], c["name"]) for c in cases])
    log("[C14] MiniScope resolver (vm_compute in coqc) %.1fs" % (time.time() - t0))
    an = analyse(cases, impl, ids, model)
    if an["parse_bad"]:
        ctx.obligation("generator: every generated program parses", False, json.dumps(an["parse_bad"][:3])[:1500])
    cls = classes_of(an, cases)
    for name, ks in sorted(cls.items()):
        c = cases[ks[0]]
        short = min((cases[k] for k in ks), key=lambda x: len(x["src"]))
        ctx.violation(name, "%d programs, e.g. [%s, %s] %s" % (len(ks), short["rule"], short["media"], short["src"]),
                      {"rule": short["rule"], "media": short["media"], "src": short["src"], "reference_offset": short["ref_off"],
                       "binding_form": short["form"], "wrappers_between_binding_and_reference": short["inner"], "expected": "silence" if short["kind"] == "enclosing" else "report exactly at the reference",
                       "diagnostics": impl[cases.index(short)], "programs_in_class": len(ks)})
    ctx.correspondence("MiniScope resolver (Coq, vm_compute) vs swc resolver + deno_ast Scope::var on the reference of each program",
                       len(cases), len({(c["form"], tuple(c["inner"]), tuple(c["outer"])) for c in cases}), an["swc_mism"][:10],
                       "probe in {unresolved, bound&recorded, bound&unrecorded}; distinct := (binding form, wrappers)",
                       samples=[{"src": cases[7]["src"], "model": model[7]}], distribution=dict(an["dist"]))
    ctx.correspondence("rules vs their modelled query scheme (scope-var: report iff unresolved or bound only by unrecorded forms; ctxt: iff unresolved; unscoped handlers: always)",
                       len(cases), len(an["nontrivial"]), an["mech_mism"][:10],
                       "%d references x %d binding forms x wrapper chains of depth 0-4 (all depth-0/1, sampled 2-4) x optional outer wrappers; non-trivial := the property held on the case"
                       % (len(REFS), len(FORMS)), distribution={"type-only (informational)": dict(an["info"])})
    ctx.extra["c14_classes"] = {k: len(v) for k, v in cls.items()}
    ctx.extra["c14_type_only_informational"] = dict(an["info"])
    return an, cls


if __name__ == "__main__":
    KNOWN = {e["match"]["class"] for e in lib.known_findings("C14")}
    tier = sys.argv[2] if len(sys.argv) > 2 else "quick"
    cases = generate(int(sys.argv[1]) if len(sys.argv) > 1 else 1, tier)
    print(len(cases), "cases")
    t = time.time()
    impl, ids = run_cases(cases)
    print("impl %.1fs" % (time.time() - t))
    model = [py_probe(c["term"], c["name"]) for c in cases]
    an = analyse(cases, impl, ids, model)
    cls = classes_of(an, cases)
    for name, ks in sorted(cls.items()):
        short = min((cases[k] for k in ks), key=lambda x: len(x["src"]))
        print("%-6d %s %s   [%s %s] %s" % (len(ks), "KNOWN " if name in KNOWN else "NEW   ", name, short["rule"], short["media"], short["src"]))
    print("known but not seen:", [k for k in KNOWN if k not in cls])
    print("parse problems:", len(an["parse_bad"]), an["parse_bad"][:3])
    print("model vs swc mismatches:", len(an["swc_mism"]), an["swc_mism"][:5])
    print("mechanism mismatches:", len(an["mech_mism"]), an["mech_mism"][:5])
    for k, v in sorted(an["info"].items()):
        print("INFO", v, k)
