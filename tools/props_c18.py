# C18 — JSX factory configuration affects nothing but unused-variable analysis.
import collections, json, os, random, re, sys
import lib, pipe
from lib import log
from props import register
import props_misc as PM
sys.path.insert(0, os.path.join(lib.ROOT, "translate"))
import gen_factory_readers

CONFIGS = [(None, None), ("React.createElement", "React.Fragment"), ("h", "Fragment"), ("a.b.c", "a.F"), ("A.h", None), (None, "B"), ("C", "D.E"),
           # configured factories that are expressions but not dotted names
           ("ui['h']", "ui?.F"), ("(0, ui.h)", None), ("a || b", "c ?? d"), ("ui.h.bind(null)", "D")]


def idents_of(expr):
    """identifiers of a factory expression that the implementation can mark as used: swc's `apply_mark` gives the top-level mark to
    the ROOT of an identifier / member chain (`a.b.c`, `ui['h']` -> [root]) and to nothing else (`a || b`, `ui?.F`, `(0, ui.h)`,
    `f.bind(null)` -> []), so no declared binding can match the other identifiers.  (The property only says which reports MAY disappear.)"""
    if expr is None:
        return None
    m = re.match(r"^\s*([A-Za-z_$][\w$]*)((\s*\.\s*[A-Za-z_$][\w$]*)|(\s*\[\s*'[^']*'\s*\]))*\s*$", expr)
    if not m or m.group(1) in ("null", "this", "true", "false", "undefined"):
        return []
    return [m.group(1)]


def enc_ol(l):
    return pipe.enc_opt(l, lambda x: pipe.enc_list(x, pipe.enc_str))


def gen_program(rng):
    names = ["A", "B", "C", "D", "h", "Fragment", "React", "a", "ui", "b", "c", "d"]
    decl = rng.sample(names, rng.randint(1, 5))
    used = [n for n in decl if rng.random() < 0.3]
    pf = rng.choice([None, None, "A.h", "h", "Z.q", "this.h", "null"])
    pg = rng.choice([None, None, "B", "Fragment", "Z.F", "null", "this.F"])
    he, hf = rng.random() < 0.6, rng.random() < 0.4
    lines = []
    style = rng.randrange(4)
    if style == 0 or not (pf or pg):
        if pf:
            lines.append("/** @jsx %s */" % pf)
        if pg:
            lines.append("/** @jsxFrag %s */" % pg)
    elif style == 1:     # pragmas sharing one comment with a runtime pragma
        lines.append("/** @jsxRuntime classic%s%s */" % (" @jsx " + pf if pf else "", " @jsxFrag " + pg if pg else ""))
    elif style == 2:     # multi-line header
        lines.append("/**\n * @jsxRuntime classic\n%s%s */" % (" * @jsx %s\n" % pf if pf else "", " * @jsxFrag %s\n" % pg if pg else ""))
    else:
        lines.append("/** %s%s @jsxImportSource preact */" % ("@jsx " + pf + " " if pf else "", "@jsxFrag " + pg if pg else ""))
    selfref = None
    if rng.random() < 0.3:
        # a component whose only use is rendering itself stays unused; it comes first so that it holds the file's first JSX element
        selfref = rng.choice(["Tree", "Node0", "Menu"])
        lines.append({"Tree": "function Tree() { return <Tree />; }", "Node0": "const Node0 = () => <Node0/>;",
                      "Menu": "class Menu { render() { return <Menu.Item/>; } }"}[selfref])
    for i, n in enumerate(decl):
        k = rng.randrange(4)
        lines.append(["import %s from 'm%d';" % (n, i), "import * as %s from 'n%d';" % (n, i), "const %s = %d;" % (n, i), "function %s() {}" % n][k])
    for n in used:
        lines.append("void %s;" % n)
    # names used only in type positions (verbatim-module-syntax territory): they count as used for no-unused-vars
    tused = [n for n in decl if n not in used and rng.random() < 0.25]
    for i, n in enumerate(tused):
        lines.append("let t%d: typeof %s | undefined; void t%d;" % (i, n, i))
    used = used + tused
    if rng.random() < 0.25:
        # things that look like JSX to a token scan but are not: generic arrows, comparisons, type arguments, type assertions of a tsx file
        lines.append(rng.choice(["export const id%d = <T,>(x: T) => x;", "export const cmp%d = (a: number, b: number) => a < b && b > a;",
                                 "export function ta%d() { return f9<string>('x'); }", "export const gen%d = <T extends object>(x: T): T => x;",
                                 "export type Box%d<T> = { v: T };"]) % rng.randrange(100))
    if he:
        lines.append("void (<div x={1}>t</div>);")
    if hf:
        lines.append("void (<><p/></>);" if he or rng.random() < 0.5 else "void (<></>);")
        if "<p/>" in lines[-1]:
            he = True
    if selfref:
        decl = [selfref] + decl
        he = True
    return {"src": "\n".join(lines) + "\n", "decl": decl, "used": used, "pf": pf, "pg": pg, "he": he, "hf": hf}


SPECS = [None, None, "file:///v/case", "https://example.com/mod?x=1", "file:///v/case.js", "file:///v/case.ts", "file:///v/case.jsx", "file:///v/some.dir/case.tsx?v=2"]


def entry_variant(rng):
    """the entry point (lint_file / lint_with_ast) and a specifier that may disagree with the media type"""
    v = {}
    if rng.random() < 0.35:
        v["entry"] = "ast"
    sp = rng.choice(SPECS)
    if sp:
        v["spec"] = sp
    return v


@register("C18")
def c18(ctx):
    ctx.assumptions.append("rule bodies other than the factory plumbing are not modelled: 'no other rule reads the configuration' is a generated table + the differential run; JsxDirectives::from_comments / parse_expr_for_jsx (swc) are modelled by their results")
    readers = gen_factory_readers.generate()
    ctx.obligation("translator: coq/Gen/FactoryReaders.v regenerated from /repo/src (%s)" % readers, True)
    ctx.proof_stage("C18", ["Jsx/ReaderFacts.vo"])
    exe, out = lib.build_model("jsx")
    if exe is None:
        ctx.obligation("extraction + build of the jsx model driver", False, out[-2000:])
        return
    rng = random.Random(ctx.seed + 18)
    # (1) exact correspondence on generated programs
    n = 1500 if ctx.tier == "quick" else 20000
    progs = [gen_program(rng) for _ in range(n)]
    cases, lines, meta = [], [], []
    for p in progs:
        cf, cg = rng.choice(CONFIGS)
        cases.append(dict({"src": p["src"], "media": "tsx", "rules": ["no-unused-vars"], "jsx": cf, "jsxfrag": cg}, **entry_variant(rng)))
        lines.append(" ".join([enc_ol(idents_of(cf)), enc_ol(idents_of(cg)), enc_ol(idents_of(p["pf"])), enc_ol(idents_of(p["pg"])),
                               "1" if p["he"] else "0", "1" if p["hf"] else "0", pipe.enc_list(p["decl"], pipe.enc_str), pipe.enc_list(p["used"], pipe.enc_str)]))
    impl = lib.run_vh("lint", cases)
    mod = lib.run_model("jsx", "unused", lines)
    mism, nontriv = [], 0
    for c, p, i, m in zip(cases, progs, impl, mod):
        if "ok" not in i:
            mism.append({"case": c, "impl": i}); continue
        got = [re.match(r"`([^`]*)`", d["msg"]).group(1) for d in i["ok"]]
        r = pipe.Reader(m)
        want = r.list(r.str)
        if got != want:
            mism.append({"case": c, "impl_unused": got, "model_unused": want})
            # is the PROPERTY violated on this input?  (pragma wins; only idents of the effective factory may disappear; only with JSX)
            base_unused = [x for x in p["decl"] if x not in p["used"]]
            removed = set(base_unused) - set(got)
            eff = set()
            if p["he"]:
                e = p["pf"] or c["jsx"]
                if e: eff.update(idents_of(e))
            if p["hf"]:
                e = p["pg"] or c["jsxfrag"]
                if e: eff.update(idents_of(e))
            if not removed <= eff:
                ctx.violation("C18.removes-non-factory-ident-or-ignores-pragma", "no-unused-vars dropped %s; effective factory identifiers are %s" % (sorted(removed - eff), sorted(eff)),
                              {"case": c, "impl_unused": got, "expected_unused": want})
            elif set(got) - set(base_unused):
                ctx.violation("C18.config-adds-report", "unexpected reports %s" % sorted(set(got) - set(base_unused)), {"case": c})
            elif (eff & set(base_unused)) - removed:
                ctx.violation("C18.factory-ident-still-reported", "the effective factory identifier %s is still reported" % sorted((eff & set(base_unused)) - removed), {"case": c, "impl_unused": got})
        if want != [x for x in p["decl"] if x not in p["used"]]:
            nontriv += 1
    ctx.correspondence("no-unused-vars vs the extracted factory model (generated top-level declarations / usages / pragmas / JSX presence x configurations)",
                       n, nontriv, mism[:10], "non-trivial := the configuration or a pragma removes at least one report", samples=[cases[0]])
    # (2) differential over the repo's test programs, all rules
    snippets = PM.sample_corpus(rng, 1200 if ctx.tier == "quick" else 10 ** 6)
    dcases, dmeta = [], []
    for sn in snippets:
        media = rng.choice(["tsx", "jsx", "ts", "js"])
        src = sn["src"]
        pr = rng.random()
        if pr < 0.15:
            src = "/** @jsx h */\n" + src
        elif pr < 0.25:
            src = "/** @jsx h */\n/** @jsxFrag Fragment */\n" + src
        k = len(dcases)
        ev = entry_variant(rng)
        for (cf, cg) in CONFIGS:
            dcases.append(dict({"src": src, "media": media, "rules": "all", "jsx": cf, "jsxfrag": cg}, **ev))
        dmeta.append((k, src, media, pr))
    for p in progs[:600 if ctx.tier == "quick" else 6000]:
        k = len(dcases)
        ev = entry_variant(rng)
        for (cf, cg) in CONFIGS:
            dcases.append(dict({"src": p["src"], "media": "tsx", "rules": "all", "jsx": cf, "jsxfrag": cg}, **ev))
        dmeta.append((k, p["src"], "tsx", 1.0 if not (p["pf"] and p["pg"]) else 0.2))
    # several diagnostics of another rule that tie on (start, code), in files whose total number of diagnostics moves across every
    # small count when the configuration removes the `React` report (an unstable sort orders ties by the length of the list)
    for nd in range(8, 72):
        src = ("// deno-lint-ignore zzz-e zzz-a zzz-d zzz-b zzz-c\nimport React from 'react';\nvoid (<div/>);\n" + "debugger;\n" * (nd - 6)
               + "// deno-lint-ignore-file-x\n// deno-lint-ignore qq-2 qq-1 qq-3\nlet u9 = 1;\n")
        k = len(dcases)
        for (cf, cg) in CONFIGS:
            dcases.append({"src": src, "media": "tsx", "rules": "all", "jsx": cf, "jsxfrag": cg})
        dmeta.append((k, src, "tsx", 1.0))
    res = lib.run_vh("lint", dcases, per_case_timeout=5)
    nontriv2 = set()
    nbad = collections.Counter()
    for (k, src, media, pr) in dmeta:
        base = res[k]
        if PM.status(base) != "ok":
            continue
        bk = PM.keys(base)
        for j, (cf, cg) in enumerate(CONFIGS[1:], 1):
            v = res[k + j]
            if PM.status(v) != "ok":
                if PM.status(v) in ("panic", "crash"):
                    continue
                ctx.violation("C18.config-changes-parse", "configuration changes whether the file lints", {"case": dcases[k + j]})
                continue
            vk = PM.keys(v)
            others_b = [x for x in bk if x[0] != "no-unused-vars"]
            others_v = [x for x in vk if x[0] != "no-unused-vars"]
            if others_b != others_v:
                codes = sorted(set(x[0] for x in set(others_b) ^ set(others_v)))
                cls = "C18.other-rule-affected:" + ",".join(codes[:3])
                nbad[cls] += 1
                if nbad[cls] <= 2:
                    ctx.violation(cls, "a rule other than no-unused-vars changed with the JSX configuration", {"base": dcases[k], "variant": dcases[k + j]})
            ub = [x for x in bk if x[0] == "no-unused-vars"]
            uv = [x for x in vk if x[0] == "no-unused-vars"]
            added = [x for x in uv if x not in ub]
            removed = [x for x in ub if x not in uv]
            if added:
                ctx.violation("C18.config-adds-report", "configuration added a no-unused-vars report", {"base": dcases[k], "variant": dcases[k + j], "added": added[:3]})
            if removed:
                nontriv2.add((src, cf, cg))
                allowed = set()
                for e in (cf, cg):
                    if e:
                        allowed.update(idents_of(e))
                names = set(re.match(r"`([^`]*)`", x[3]).group(1) for x in removed)
                if not names <= allowed:
                    ctx.violation("C18.removes-non-factory-ident", "removed reports for %s, factory idents %s" % (sorted(names), sorted(allowed)), {"base": dcases[k], "variant": dcases[k + j]})
                if media in ("ts", "js") or "<" not in src:
                    ctx.violation("C18.effect-without-jsx", "reports removed in a file without JSX", {"base": dcases[k], "variant": dcases[k + j]})
                if pr >= 0.15 and pr < 0.25 and removed:
                    ctx.violation("C18.pragma-does-not-win", "both pragmas present, yet the configured defaults changed the result", {"base": dcases[k], "variant": dcases[k + j]})
    ctx.correspondence("per-rule projections under %d configurations (implementation differential, all rules, repo test programs, +pragmas)" % len(CONFIGS),
                       len(dcases), len(nontriv2), [], "non-trivial := a configuration removed at least one no-unused-vars report")
