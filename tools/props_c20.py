# C20 — Diagnostics do not depend on how local bindings are spelled.
#
# Proof stage: coq/Props/C20.v (Scope/Rename.v: equivariance of Id-table programs; Scope/ReaderFacts.v over the regenerated
# Gen/Readers.v: no rule iterates a name-keyed container).
# Differential on the implementation: for programs of the repo's test corpus and generated ones, pick an ELIGIBLE binding,
# rename every occurrence of that binding (swc Id = name + syntax context, from the harness sub-command `idents`) to a fresh name
# of the same length and letter-case shape IN PLACE (same byte offsets), lint both texts with all rules, map the fresh name back
# in messages / hints / fix texts and compare exactly (codes, ranges, texts, order).
#
# ELIGIBILITY (the property's own rule, made executable; every restriction is one of the property's exclusions):
#   * locally declared: the Id has a binding occurrence (variable, parameter, function, class, catch / loop binding, enum,
#     namespace, type alias, interface, type parameter) and is not in swc's unresolved context;
#   * not imported or exported: no occurrence in an import / export specifier, not declared by an `export` declaration, not
#     `export default`ed / `export =`ed, not declared inside `declare global` / `declare module "x"`;
#   * its NAME is not used anywhere in the file as a property key / member name, shorthand property (`{a}` in an object literal
#     or in a destructuring pattern), label or JSX element name;
#   * not spelled like a global, restricted or contextual-keyword name: RESERVED below = ECMAScript / TypeScript (contextual)
#     keywords + restricted names + every identifier-like string literal that the rules' sources and src/globals.rs mention
#     (frozen when this check was written -- NOT regenerated, so a rule that starts special-casing a new spelling is not excused) +
#     the JSX factory / framework names;
#   * not hook-like (`use[A-Z0-9]...`, react-rules-of-hooks keys on that convention) -- component-like capitalised names keep
#     their capital under a shape-preserving renaming, and names used as JSX element names are excluded above;
#   * technical: plain ASCII identifier, every occurrence spelled literally (no unicode escapes), and the name occurs in the file
#     text only as these identifier tokens (not inside strings, comments, templates, JSX text, directives such as `@jsx h`).
# The fresh name: same length, lower->lower, upper->upper, digits/_/$ kept; not reserved, not hook-like, not occurring anywhere in
# the file as a word and not occurring as a substring of any message / hint / fix text of the original run (so the back-mapping is
# a plain substring replacement).
import collections, json, os, random, re, sys, time
import lib
from lib import log
from props import register
sys.path.insert(0, os.path.join(lib.ROOT, "translate"))
import corpus as corpus_mod

KEYWORDS = """break case catch class const continue debugger default delete do else enum export extends false finally for function if import in
instanceof new null return super switch this throw true try typeof var void while with yield let static implements interface package private protected
public await async of get set from as type namespace module declare abstract readonly keyof infer is asserts unique global require any unknown never
object string number boolean symbol bigint undefined satisfies accessor override out using defer target meta constructor arguments eval NaN Infinity
React h Fragment jsx jsxs jsxDEV createElement primordials exports handler handlers config props children key ref default name length prototype
it describe test expect""".split()
RULE_LITERALS = """
AbortController AbortSignal AggregateError Array ArrayBuffer Atomics BigInt BigInt64Array BigUint64Array Blob Boolean BroadcastChannel Buffer
ByteLengthQueuingStrategy Cache CacheStorage CanvasGradient CanvasPattern CloseEvent CompressionStream CountQueuingStrategy Crypto CryptoKey
CustomEvent DOMException DOMMatrix DOMMatrixReadOnly DOMPoint DOMPointReadOnly DOMQuad DOMRect DOMRectReadOnly DOMStringList DataView Date
DecompressionStream DedicatedWorkerGlobalScope Deno Error ErrorEvent EvalError Event EventSource EventTarget File FileList FileReader
FinalizationRegistry Float16Array Float32Array Float64Array FontFace FontFaceSet FontFaceSetLoadEvent FormData Function GPU GPUAdapter GPUAdapterInfo
GPUBindGroup GPUBindGroupLayout GPUBuffer GPUBufferUsage GPUCanvasContext GPUColorWrite GPUCommandBuffer GPUCommandEncoder GPUComputePassEncoder
GPUComputePipeline GPUDevice GPUDeviceLostInfo GPUError GPUMapMode GPUOutOfMemoryError GPUPipelineLayout GPUQuerySet GPUQueue GPURenderBundle
GPURenderBundleEncoder GPURenderPassEncoder GPURenderPipeline GPUSampler GPUShaderModule GPUShaderStage GPUSupportedFeatures GPUSupportedLimits
GPUTexture GPUTextureUsage GPUTextureView GPUValidationError Headers IDBCursor IDBCursorWithValue IDBDatabase IDBFactory IDBIndex IDBKeyRange
IDBObjectStore IDBOpenDBRequest IDBRequest IDBTransaction IDBVersionChangeEvent ImageBitmap ImageBitmapRenderingContext ImageData Infinity Int16Array
Int32Array Int8Array Intl JSON Location Map Math MediaCapabilities MessageChannel MessageEvent MessagePort NaN Navigator NetworkInformation
Notification Number Object ObjectDefineProperties ObjectDefineProperty Path2D Performance PerformanceEntry PerformanceMark PerformanceMeasure
PerformanceObserver PerformanceObserverEntryList PerformanceResourceTiming PerformanceServerTiming PermissionStatus Permissions ProgressEvent Promise
PromiseAll PromiseAllSettled PromiseAny PromisePrototypeFinally PromiseRace PromiseRejectionEvent Proxy PushManager PushSubscription
PushSubscriptionOptions RangeError ReadableByteStreamController ReadableStream ReadableStreamBYOBReader ReadableStreamBYOBRequest
ReadableStreamDefaultController ReadableStreamDefaultReader ReferenceError Reflect ReflectDefineProperty RegExp Request Response
SecurityPolicyViolationEvent ServiceWorker ServiceWorkerContainer ServiceWorkerRegistration Set SharedArrayBuffer Storage StorageManager String
SubtleCrypto Symbol Sync SyntaxError TextDecoder TextDecoderStream TextEncoder TextEncoderStream TextMetrics TransformStream
TransformStreamDefaultController TypeError URIError URL URLPattern URLSearchParams Uint16Array Uint32Array Uint8Array Uint8ClampedArray WeakMap
WeakRef WeakSet WebAssembly WebGL2RenderingContext WebGLActiveInfo WebGLBuffer WebGLContextEvent WebGLFramebuffer WebGLProgram WebGLQuery
WebGLRenderbuffer WebGLRenderingContext WebGLSampler WebGLShader WebGLShaderPrecisionFormat WebGLSync WebGLTexture WebGLTransformFeedback
WebGLUniformLocation WebGLVertexArrayObject WebSocket WebSocketError WebSocketStream Window Worker WorkerGlobalScope WorkerLocation WorkerNavigator
WritableStream WritableStreamDefaultController WritableStreamDefaultWriter XMLHttpRequest XMLHttpRequestEventTarget XMLHttpRequestUpload __proto__
addEventListener alert apply area arguments assert assign async at atob base bigint bind boolean br btoa buffer byteLength byteOffset caches call
camelcase cancelAnimationFrame catch charAt charCodeAt children clearImmediate clearInterval clearTimeout close closed codePointAt col concat confirm
console constructor copy copyWithin create createImageBitmap crossOriginIsolated crypto customInspect dangerouslySetInnerHTML decodeURI
decodeURIComponent defineProperties defineProperty deleteProperty deps description detached dispatchEvent embed encodeURI encodeURIComponent endsWith
entries eqeqeq escape eval every fallthrough false fdatasync fdatasyncSync fetch fill filter finally find findIndex findLast findLastIndex flat
flatMap flock flockSync forEach freeze from fstat fstatSync fsync fsyncSync ftruncate ftruncateSync function funlock funlockSync futime futimeSync get
getBigInt64 getBigUint64 getDate getDay getFloat32 getFloat64 getFullYear getHours getInt16 getInt32 getInt8 getMilliseconds getMinutes getMonth
getSeconds getTime getTimezoneOffset getUTCDate getUTCDay getUTCFullYear getUTCHours getUTCMilliseconds getUTCMinutes getUTCMonth getUTCSeconds
getUint16 getUint32 getUint8 getYear global globalThis grow growable handlers hasOwnProperty hr img includes indexOf indexedDB input isFinite isNaN
isPrototypeOf isSecureContext isatty iter iterSync join jsx jsxFragment key keys keyword lastIndexOf link localStorage localeCompare location map
match matchAll maxByteLength meta metrics module name navigator new next normalize null number object on onbeforeunload onerror onlanguagechange
onload onmessage onmessageerror onoffline ononline onrejectionhandled onunhandledrejection onunload origin padEnd padStart param parseFloat parseInt
performance pop postMessage process prompt propertyIsEnumerable push queueMicrotask read readAll readAllSync readSync reduce reduceRight
removeEventListener repeat replace replaceAll reportError requestAnimationFrame resizable resize resources return reverse routes run search seek
seekSync self serveHttp sessionStorage set setBigInt64 setBigUint64 setDate setFloat32 setFloat64 setFullYear setHours setImmediate setInt16 setInt32
setInt8 setInterval setMilliseconds setMinutes setMonth setPrototypeOf setSeconds setTime setTimeout setUTCDate setUTCFullYear setUTCHours
setUTCMilliseconds setUTCMinutes setUTCMonth setUTCSeconds setUint16 setUint32 setUint8 setYear shift shutdown slice some sort source splice split
startsWith string structuredClone substring symbol then this throw toDateString toExponential toFixed toISOString toJSON toLocaleDateString
toLocaleLowerCase toLocaleString toLocaleTimeString toLocaleUpperCase toLowerCase toPrecision toReversed toSorted toSpliced toString toTimeString
toUTCString toUpperCase todo track transfer transferToFixedLength trim trimEnd trimStart true undefined unescape unshift use valueOf values variable
void wbr window with write writeAll writeAllSync writeSync

""".split()
RESERVED = set(KEYWORDS) | set(RULE_LITERALS)
HOOK_LIKE = re.compile(r"^use[A-Z0-9]")
IDENT = re.compile(r"^[A-Za-z_$][A-Za-z0-9_$]*$")
NONBINDING_USES = ("prop", "shorthand", "label", "jsx", "import_ext", "export", "import")


def word_count(src, name):
    return len(re.findall(r"(?<![A-Za-z0-9_$])%s(?![A-Za-z0-9_$])" % re.escape(name), src))


def eligible_ids(src, ids, allow=(), inner_only=False):
    """ids: result of `idents` -> [(name, ctxt, [occurrence (start,end)])] eligible by the property's rule."""
    if not ids or "idents" not in ids:
        return []
    unresolved = ids["unresolved"]
    exported = {(s, c) for s, c in ids["exported"]}
    by_id = collections.defaultdict(list)
    by_name = collections.defaultdict(list)
    for (st, en, sym, ctxt, kind, declared, ambient) in ids["idents"]:
        by_name[sym].append(kind)
        if kind != "prop":
            by_id[(sym, ctxt)].append((st, en, kind, ambient))
    b = src.encode()
    out = []
    for (sym, ctxt), occ in by_id.items():
        if ctxt == unresolved or (sym, ctxt) in exported:
            continue
        if not IDENT.match(sym) or (sym in RESERVED and sym not in allow) or HOOK_LIKE.match(sym):
            continue
        if inner_only and ctxt <= unresolved + 1:
            continue      # module-level bindings are what a configured JSX factory refers to by spelling
        kinds = {k for (_, _, k, _) in occ}
        if "bind" not in kinds or kinds - {"bind", "ref"}:
            continue
        if any(a for (_, _, _, a) in occ):
            continue
        # by NAME: property keys, shorthands, labels, JSX names, the external side of import / export specifiers;
        # an import BINDING that merely has the same spelling is another binding (its own Id is excluded by `kinds` above)
        if any(k in NONBINDING_USES and k != "import" for k in by_name[sym]):
            continue
        if any(b[st:en] != sym.encode() for (st, en, _, _) in occ):
            continue
        if word_count(src, sym) != len(by_name[sym]):
            continue
        out.append((sym, ctxt, sorted({(st, en) for (st, en, _, _) in occ})))
    return out


def fresh_name(rng, name, src, before_texts):
    for _ in range(60):
        cand = "".join(rng.choice("abcdefghijklmnopqrstuvwxyz") if ch.islower() else rng.choice("ABCDEFGHIJKLMNOPQRSTUVWXYZ") if ch.isupper() else ch
                       for ch in name)
        if cand == name or cand in RESERVED or HOOK_LIKE.match(cand) or not IDENT.match(cand):
            continue
        if word_count(src, cand) or any(cand in t for t in before_texts):
            continue
        # a fresh name that contains the old one (or vice versa) would make the substring back-mapping ambiguous
        if name in cand or cand in name:
            continue
        return cand
    return None


def rename_in_place(src, occ, fresh):
    b = bytearray(src.encode())
    for st, en in occ:
        b[st:en] = fresh.encode()
    return b.decode()


def texts_of(res):
    ts = []
    for d in res.get("ok", []):
        ts += [d["msg"], d.get("hint") or ""]
        for f in d.get("fixes", []):
            ts.append(f["desc"])
            ts += [c["t"] for c in f["changes"]]
    return ts


def camel(name):
    """mirror of camelcase.rs::to_camelcase (the hint of `camelcase` quotes the name in this derived spelling)"""
    if "_" not in name.strip("_"):
        return name
    r = re.sub(r"([^_])_([a-z])", lambda m: m.group(1) + m.group(2).upper(), name)
    return r if r != name else name.upper()


def canon(res, fresh=None, old=None):
    """diagnostics as comparable tuples, the fresh name (and its camel-cased spelling) mapped back to the old one in every text"""
    def m(t):
        if t is None or fresh is None:
            return t
        if camel(fresh) != fresh:
            pascal = lambda x: re.sub(r"^[a-z]", lambda m: m.group(0).upper(), camel(x))
            t = t.replace(pascal(fresh), pascal(old)).replace(camel(fresh), camel(old))
        return t.replace(fresh, old)
    if res is None or "ok" not in res:
        return ("not-ok", sorted((res or {}).keys()))
    return [(d["code"], d["start"], d["end"], m(d["msg"]), m(d.get("hint")),
             tuple((m(f["desc"]), tuple((c["s"], c["e"], m(c["t"])) for c in f["changes"])) for f in d.get("fixes", [])))
            for d in res["ok"]]


# ---------------------------------------------------------------------------------------------- generated programs
POOL = ["a", "b", "v", "foo", "bar", "baz", "fooBar", "foo_bar", "_x", "_unused", "Foo", "Bar", "FOO_BAR", "x1", "$el", "T", "K", "tmp", "acc", "cb", "x", "unused",
        # spellings that are substrings of the keywords around them (a rule that searches the TEXT for the name finds the keyword)
        "du", "mod", "are", "e", "et", "ons", "lass", "ype", "num", "ter", "ace", "ort", "unc", "ar",
        # spellings that CONTAIN a keyword of the surrounding syntax
        "asyncOnly", "unasynced", "getValue", "staticInit", "newItem", "classy", "functional", "awaited", "typeOf", "item", "cell"]


def derived(rng, n):
    """a spelling derived from another binding's name (rules derive `_x`, `X`, `x2` ... from `x` for their hints)"""
    return rng.choice(["_" + n, n + "_", n + "2", n[:1].upper() + n[1:], n.upper(), "$" + n, "_" + n + "_", n + n])
STMTS_ES = [
    "let N1 = 1;", "let N1; N1 = 2;", "let N1 = 1; N1 = 2; f(N1);", "const N1 = 1; N1 = 2;", "const N1 = 1; f(N1);", "var N1 = 1; var N1 = 2;",
    "var N1 = 1;", "function N1(N2) { return N2; }", "function N1(N2, N3) { return N2; }", "function N1() {} N1 = 1;", "class N1 {}", "class N1 { m() { N1 = 1; } }",
    "class N1 extends N2 { constructor() { super(); } }", "N1 = 1;", "f(N1);", "try { f(); } catch (N1) { N1 = 1; }", "try { f(); } catch (N1) { f(N1); }",
    "for (let N1 = 0; N1 < 3; N1++) { f(N1); }", "for (const N1 of xs) {}", "for (const N1 in xs) { f(N1); }", "for (var N1 = 0; N1 < 3; N1--) {}",
    "const { k: N1 } = o;", "const [N1, N2] = o; f(N2);", "let [N1] = o; N1 = 1;", "function f1({ k: N1 = 1 }, ...N2) { return N1; }",
    "if (N1) { let N1 = 2; f(N1); }", "{ let N1 = 1; N1++; f(N1); }", "(function N1() { N1(); });", "const N1 = () => N1;", "const N1 = function N2() {};",
    "let N1 = class N2 {};", "async function N1() { await N2; }", "async function N1() {}", "function* N1() { yield N2; }", "function* N1() {}",
    "l1: for (;;) { break l1; }", "N1 = N1;", "N1 === N1;", "if (N1 = 1) {}", "typeof N1 === 'strin';", "new N1();", "N1?.p.q;", "`${N1}`;", "delete N1;",
    "let N1 = N1;", "var N1 = function () {}; N1.prototype.p = 1;", "while (N1) { N1 = f(); }", "do { let N1 = 1; } while (N2);", "switch (N1) { case 1: let N2 = 1; f(N2); }",
    "N1 += 1;", "N1++;", "[N1, N2] = [N2, N1];", "({ p: N1 } = o);", "const N1 = 1, N2 = N1;", "let N1, N2; N1 = N2 = 1;", "function N1(N2 = N3, N3) {}",
    "function N1(N2, N2) {}", "const N1 = (N2) => { var N2; };", "var N1; function N1() {}", "let N1 = 0; for (;;) { N1 = 1; }", "let N1; if (c) { N1 = 1; } else { N1 = 2; } f(N1);",
    "let N1; function g1() { N1 = 1; } g1();", "if (c) { function N1() {} }", "for (const N1 of xs) { setTimeout(() => N1); }", "let N1 = 1; N1 = N1 + 1;",
    "const N1 = { p: 1 }; N1.p = 2;", "label2: { const N1 = 1; f(N1); }", "export {};",
    # rules that compare expressions syntactically (alpha-equivalent function literals)
    "if ((N1) => N1) {} else if ((N1) => N1) {}", "switch (c) { case ((N1) => N1): break; case ((N1) => N1): break; }", "f(((N1) => N1) === ((N1) => N1));",
    "f(function (N1) { return N1; } == function (N1) { return N1; });", "if (c || ((N1) => 1)) {} else if ((N1) => 1) {}",
    # the same spelling bound twice with one binding touched only from a statement HEAD whose body re-declares it
    "let N1 = 0; for (let k1 = 0; k1 < 3; k1++, N1++) { let N1 = 1; f(N1); }", "let N1 = 0; if ((N1 = f())) { let N1 = 1; f(N1); }",
    "let N1 = 0; while ((N1 = f())) { const N1 = 1; f(N1); }", "let N1 = 0; for (const k2 of (N1 = xs)) { let N1 = k2; f(N1); }",
    "let N1 = 0; switch ((N1 = f())) { case 1: { let N1 = 2; f(N1); } }", "let N1 = 1, N2 = 2; { let N1 = N2; f(N1); } f(N1);",
    "let N1 = 1; function g2() { var N1 = 1; N1 = 2; }", "let N1 = 1; function g3() { const N1 = 1; f(N1); } N1 = 2;", "let N1 = f(); { class N1 {} }",
]
STMTS_TS = [
    "import { N1 } from './mod.ts'; function apply(N1: number): number { return N1 + 1; } apply(N1);", "import { N1 } from './mod.ts'; function show(N1: number): number { return N1 + 1; } show(N1);",
    "import N1 from './mod.ts'; const f5 = (N1: number) => N1; f5(N1); type T5 = typeof N1;", "import { N1, N2 } from './mod.ts'; { const N1 = 1; g(N1); } g(N1); let t6: N2;",
    "function N1(t: any, k: any) {} class K7 { @N1 async load() { return 1; } }", "function N1(n: number) { return (t: any, k: any) => {}; } class K8 { @N1(3) static async load() { return 1; } @N1(4) get g() { return 1; } }",
    "function N1(t: any) {} @N1 class K9 { static m() {} }",
    "module N1 {}", "declare module N1 {}", "namespace N1 {}", "declare namespace N1 { const N2: number; }", "module N1 { export const N2 = 1; }", "module N1.N2 {}",
    "type N1 = number;", "type N1 = number; let N2: N1;", "interface N1 { m: number }", "interface N1 { m: N2 }", "let N1: N2;", "function N1<N2>(p: N2): N2 { return p; }",
    "function N1<N2>() {}", "enum N1 { A }", "enum N1 { A } f(N1.A);", "namespace N1 { const N2 = 1; }", "declare const N1: number;", "abstract class N1 { abstract m(): void; }",
    "class N1<N2> { p!: N2; }", "const N1 = <N2,>(p: N2) => p;", "let N1 = f() as N2;", "function N1(this: N2) {}", "type N1<N2> = N2 extends infer N3 ? N3 : never;",
    "class N1 { constructor(private N2: number) {} }", "function N1(N2?: number): asserts N2 {}", "let N1!: number; f(N1);", "type N1 = typeof N2;", "let N1: typeof N1;",
    "const N1 = 1 satisfies N2;", "interface N1<N2> extends N3 { m(): N2 }", "declare function N1(N2: number): void;", "function N1(N2: number): void; function N1(N2: any) {}",
]
WRAPS = ["%s", "%s", "%s", "{ %s }", "function w1() { %s }", "(() => { %s })();", "class W2 { m() { %s } }", "if (c) { %s }", "for (;;) { %s }", "try { %s } catch {}",
         "export function w3() { %s }", "async function w4() { %s }", "class W5 { static { %s } }", "namespace W6 { %s }"]


def gen_program(rng):
    ts = rng.random() < 0.5
    n = rng.randint(1, 6)
    names = rng.sample(POOL, rng.randint(2, 5))
    if rng.random() < 0.3:
        names.append(derived(rng, rng.choice(names)))
    out = []
    for _ in range(n):
        tpl = rng.choice(STMTS_TS if ts and rng.random() < 0.4 else STMTS_ES)
        s = tpl
        for k in ("N1", "N2", "N3"):
            s = s.replace(k, rng.choice(names))
        # `let X = class X {}`: deno_ast's Scope records the class expression's name INSTEAD of the variable (a C14 finding, class
        # `variable-initialised-with-same-named-class-expression`); not generated here, the corpus contains a few
        if re.search(r"\b(let|const|var) ([A-Za-z_$][\w$]*) = class \2\b", s):
            continue
        w = rng.choice(WRAPS)
        if "namespace" in w and not ts:
            w = "%s"
        if s.startswith("export") or s.startswith("import"):
            w = "%s"
        out.append(w % s)
    return {"src": "\n".join(out), "media": "ts" if ts else rng.choice(["js", "ts", "tsx", "jsx"]), "origin": "generated"}



@register("C20")
def c20(ctx):
    import gen_readers
    ctx.assumptions += [
        "the rules' visitors are not modelled: Scope/Rename.v proves equivariance for the table discipline (insert / remove / lookup / compare / "
        "iterate in insertion order, fixed predicate on spellings); that no rule iterates a NAME-keyed container is a token-level scan (Gen/Readers.v); the "
        "rules themselves are covered by the differential run only",
        "binding occurrences come from swc's resolver (harness `idents`: name + syntax context); two occurrences with the same Id are taken to be the same binding",
        "eligibility is the property's own rule made executable (see the header of tools/props_c20.py); RESERVED contains every identifier-like string literal "
        "of the rules' sources as of the writing of the check",
    ]
    info = gen_readers.generate()
    nk = [c for c in info["c20_containers"] if c[4] == 1]
    ctx.obligation("translator: coq/Gen/Readers.v regenerated from src/rules/*.rs (%d containers in %d rule files, %d name-keyed, %d of them iterated, %d unclassified)"
                   % (len(info["c20_containers"]), len({c[0] for c in info["c20_containers"]}), len(nk), sum(1 for c in nk if c[6]), len(info["c20_unknown"])),
                   len(info["c20_containers"]) > 0, "")
    ctx.proof_stage("C20", ["Scope/Rename.vo", "Scope/ReaderFacts.vo"])
    rng = random.Random(ctx.seed + 20)
    quick = ctx.tier == "quick"
    progs = []
    corp = corpus_mod.corpus(lib.REPO)
    if quick:
        corp = rng.sample(corp, min(len(corp), 2500))
    for sn in corp:
        progs.append({"src": sn["src"], "media": None, "origin": "corpus:" + sn["rule_file"]})
    for _ in range(3000 if quick else 40000):
        progs.append(gen_program(rng))
    # targeted: locals spelled like the configured JSX factory (the configuration names a MODULE-LEVEL spelling; inner bindings are ordinary)
    for tpl in ("export const el = <div/>; export function App(N1: number) { return 1; }", "export const el = <><p/></>; export const g7 = (N1: number, N2: number) => N2;",
                "export function App() { const N1 = 1; return <div>{2}</div>; }", "export class C7 { m(N1: number) { return <a/>; } }"):
        for (cf, cg) in (("h", "Fragment"), ("React.createElement", "React.Fragment"), ("preact.h", "preact.Fragment")):
            for nm in (cf.split(".")[0], cg.split(".")[0]):
                progs.append({"src": tpl.replace("N1", nm).replace("N2", "other7"), "media": "tsx", "origin": "generated", "jsx": cf, "jsxfrag": cg, "allow": (nm,)})
    # targeted: a binding whose name is a SUBSTRING of text that sits in a recovered syntax error (invalid assignment pattern)
    for tpl in ("let N1 = 1; [width + n] = f();", "function f8(N1: number) { ({ w: height + N2 } = x); }", "const N1 = 2; export const g8 = ([header + 1]) => 0;"):
        for nm in ("id", "wid", "th", "he", "head", "eight"):
            progs.append({"src": tpl.replace("N1", nm).replace("N2", "n"), "media": "ts", "origin": "generated"})
    # targeted: two same-scope names of equal length that share their first three characters (a lossy key)
    for a7, b7 in (("start", "state"), ("item1", "item2"), ("parse", "parts"), ("Kind1", "Kind2"), ("abc", "abd"), ("total1", "total2"), ("a", "b")):
        for tpl in ("let N1 = 1, N2 = 2; g(N1);", "function f9(N1: number, N2: number) { return N2; }", "type N1 = number; type N2 = string; let v9: N1; g(v9);", "import { x as N1, y as N2 } from 'm'; g(N2);"):
            progs.append({"src": tpl.replace("N1", a7).replace("N2", b7), "media": "ts", "origin": "generated"})
    # targeted: a binding whose spelling CONTAINS a keyword that stands next to it (text search vs token lookup)
    for tpl, kws in (("function N1(t: any, k: any) {} class K7 { @N1 async load() { return 1; } }", ["asyncOnly", "unasynced", "isasync"]),
                     ("function N1(n: number) { return (t: any, k: any) => {}; } class K8 { @N1(3) static async load() { return 1; } }", ["asyncOnly", "staticInit", "unasynced"]),
                     ("function N1(t: any, k: any) {} class K6 { @N1 static *gen() { g(); } @N1 get g() { g(); } }", ["staticky", "getter", "regen"]),
                     ("const N1 = 1; export const f7 = async (p = N1) => { g(p); };", ["asyncOnly", "constant", "exported"]),
                     ("function N1() {} namespace Q7 { N1(); } module Q8 { N1(); }", ["modules", "namespaced", "du"]),
                     ("let N1 = 1; label7: for (;;) { N1++; break label7; }", ["label", "labelled", "forever", "breaker"]),
                     ("function N1<T>(x: T) { return x; } enum E7 { A = 1 } declare const c7: number; N1(c7);", ["enumerate", "declared", "constant"]),
                     ("type N1 = number; interface I7 { m: N1 } let v7: N1 = 1; g(v7);", ["typed", "interfaced", "ype"]),
                     ("import { N1 } from './mod.ts'; function apply(N1: number): number { return N1 + 1; } apply(N1);", ["item", "cell", "show", "apply2"])):
        for nm in kws:
            for w in ("%s", "export function w9() { %s }" if not tpl.startswith("import") and "export" not in tpl and "namespace" not in tpl else "%s"):
                progs.append({"src": w % tpl.replace("N1", nm), "media": "ts", "origin": "generated"})
    # media of corpus programs: the first of ts, tsx, js, jsx under which the text parses
    pending = list(range(len(progs)))
    idents = [None] * len(progs)
    for media in ("ts", "tsx", "js", "jsx"):
        todo = [k for k in pending if progs[k]["media"] in (None, media)]
        res = lib.run_vh("idents", [{"src": progs[k]["src"], "media": media} for k in todo])
        nxt = []
        for k, r in zip(todo, res):
            if r is not None and "idents" in r:
                idents[k] = r
                progs[k]["media"] = media
            elif progs[k]["media"] is None:
                nxt.append(k)
        pending = [k for k in pending if k in set(nxt) or (progs[k]["media"] not in (None, media) and idents[k] is None)]
    parsed = [k for k in range(len(progs)) if idents[k] is not None]
    cfg_of = lambda pr: {kk: pr[kk] for kk in ("jsx", "jsxfrag") if kk in pr}
    before = lib.run_vh("lint", [dict({"src": progs[k]["src"], "media": progs[k]["media"], "rules": "all"}, **cfg_of(progs[k])) for k in parsed])
    before = dict(zip(parsed, before))
    trials, skipped = [], collections.Counter()
    per_prog = 2 if quick else 4
    for k in parsed:
        if "ok" not in (before[k] or {}):
            skipped["original does not lint (panic / parse error): C01's business"] += 1
            continue
        el = eligible_ids(progs[k]["src"], idents[k], allow=progs[k].get("allow", ()), inner_only=bool(cfg_of(progs[k])))
        if not el:
            skipped["no eligible binding"] += 1
            continue
        rng.shuffle(el)
        bt = texts_of(before[k])
        for (sym, ctxt, occ) in el[:per_prog]:
            fr = fresh_name(rng, sym, progs[k]["src"], bt)
            if fr is None:
                skipped["no fresh name available (short name, every letter occurs in the texts)"] += 1
                continue
            trials.append({"prog": k, "old": sym, "fresh": fr, "ctxt": ctxt, "occ": occ, "src2": rename_in_place(progs[k]["src"], occ, fr)})
    after = lib.run_vh("lint", [dict({"src": t["src2"], "media": progs[t["prog"]]["media"], "rules": "all"}, **cfg_of(progs[t["prog"]])) for t in trials])
    after_ids = lib.run_vh("idents", [{"src": t["src2"], "media": progs[t["prog"]]["media"]} for t in trials])
    mism, nontrivial, kinds = [], set(), collections.Counter()
    bad_rename = []
    for t, a, ai in zip(trials, after, after_ids):
        k = t["prog"]
        p = progs[k]
        # sanity of the renaming itself: the renamed text must resolve the same way (same occurrences, now spelled fresh)
        if ai is None or "idents" not in ai:
            bad_rename.append({"src": p["src"], "renamed": t["src2"], "why": "renamed text does not parse", "old": t["old"], "fresh": t["fresh"]})
            continue
        occ2 = sorted((x[0], x[1]) for x in ai["idents"] if x[2] == t["fresh"])
        if occ2 != [tuple(o) for o in t["occ"]]:
            bad_rename.append({"src": p["src"], "renamed": t["src2"], "why": "occurrences of the fresh name differ from the renamed occurrences", "old": t["old"], "fresh": t["fresh"]})
            continue
        # a consistent renaming keeps the binding structure of the WHOLE file: the partition of the identifier occurrences into
        # bindings (swc Ids) must be the same.  It is not when the renamed `let`/`const`/`class` was what kept a same-named
        # function declaration in a block from being hoisted (Annex B.3.3, sloppy scripts): such trials are not renamings.
        if partition(idents[k]) != partition(ai):
            skipped["renaming changes the binding structure of other identifiers (Annex B function-in-block hoisting)"] += 1
            continue
        cb, ca = canon(before[k]), canon(a, t["fresh"], t["old"])
        nb = sum(1 for x in ids_of(idents[k], t["old"], t["ctxt"]) if x == "bind")
        kinds["%s/%s/%d occurrences" % ("corpus" if p["origin"].startswith("corpus") else "generated", p["media"], min(len(t["occ"]), 5))] += 1
        if cb == ca:
            if any(t["old"] in (x or "") for x in texts_of(before[k])):
                nontrivial.add((k, t["old"], t["ctxt"]))
            continue
        # classify the difference by the rule codes whose diagnostics differ
        if isinstance(cb, tuple) or isinstance(ca, tuple):
            cls = "C20.lint-status-differs"
            codes = []
        else:
            sb, sa = collections.Counter(cb), collections.Counter(ca)
            diff = (sb - sa) + (sa - sb)
            codes = sorted({d[0] for d in diff})
            only_b, only_a = (sb - sa), (sa - sb)
            how = "disappears" if only_b and not only_a else "appears" if only_a and not only_b else "differs"
            if not diff:
                how, codes = "order-differs", sorted({d[0] for d in cb})[:1]
            # was the old spelling shared with ANOTHER binding of the file (a different syntax context)?  All differences known today
            # need such a coincidence of spellings between distinct bindings; a difference without one is a different defect.
            others = {x[3] for x in idents[k]["idents"] if x[2] == t["old"] and x[4] != "prop" and x[3] != t["ctxt"]}
            cls = "C20.%s:%s:%s" % ("+".join(codes) or "?", how, "same-name-bound-elsewhere" if others else "name-unique-in-file")
        mism.append((cls, {"src": p["src"], "media": p["media"], "origin": p["origin"], "binding": t["old"], "ctxt": t["ctxt"], "fresh": t["fresh"],
                           "renamed": t["src2"], "before": before[k], "after": a}))
    done = collections.Counter()
    for cls, m in mism:
        done[cls] += 1
        if done[cls] <= 2:
            ctx.violation(cls, "renaming `%s` -> `%s` changes the diagnostics of: %s" % (m["binding"], m["fresh"], m["src"][:200]), m)
    if bad_rename:
        ctx.obligation("renamer: every renamed text parses and resolves to the same occurrences", False, json.dumps(bad_rename[:3])[:1500])
    ctx.correspondence("rename one eligible binding in place: diagnostics of all rules before vs after (names mapped back)",
                       len(trials), len(nontrivial), [],
                       "programs = repo test corpus (%d parsed) + generated; up to %d eligible bindings per program; non-trivial := some message/hint/fix of the "
                       "original run quotes the renamed name; differences are property-level failures (classes by rule code)" % (len(parsed), per_prog),
                       samples=[{"src": progs[t["prog"]]["src"], "renamed": t["src2"]} for t in trials[:2]],
                       distribution={"trials": dict(kinds), "skipped": dict(skipped), "differences": dict(done)})
    ctx.extra["c20_trials"] = len(trials)
    ctx.extra["c20_differences"] = dict(done)


def partition(ids):
    groups = collections.defaultdict(list)
    for x in ids["idents"]:
        if x[4] != "prop":
            groups[(x[2], x[3])].append(x[0])
    unresolved = ids["unresolved"]
    return sorted((tuple(sorted(v)), k[1] == unresolved) for k, v in groups.items())


def ids_of(ids, sym, ctxt):
    return [x[4] for x in ids["idents"] if x[2] == sym and x[3] == ctxt]

