# C10 / C11 — control-flow analysis soundness (no-unreachable, getter-return, no-fallthrough).
import json
import lib
from lib import log
from props import register
import cf

_cache = {}


def run_compare(ctx):
    key = (ctx.tier, ctx.seed)
    if key not in _cache:
        _cache[key] = cf.compare_all(ctx.tier, ctx.seed)
    return _cache[key]


def common(ctx, prop, kinds):
    ctx.assumptions.append("statement language with byte offsets (nested function declarations, arrow / getter expression statements, function-likes in for-in/of heads); classes and the Visit glue of the three rules are covered by the correspondence only; "
                           "function declarations are hoisted to the top of their statement list in the specification; "
                           "swc's cast_to_bool / ExprCtx (constant conditions) is an input of the model: the test kinds are known-true (pure, or after an expression that may throw), never-true, always-true-but-unknown-to-swc and opaque, for the ~40 spellings the generator uses; NaN-valued arithmetic, for which swc answers Known(true), is a known dependency finding")
    ctx.proof_stage(prop, ["CF/SoundnessCurrent.vo"])
    res = run_compare(ctx)
    mism = res["mismatches"]
    nontriv = res["programs"] - res["sizes"].get("1-2", 0)
    ctx.correspondence("Coq model of control_flow/mod.rs (fixes A,B,D,E,F = current code) vs ControlFlow::analyze: info map entry by entry + the three rules' diagnostics; ghost analyzer vs map analyzer",
                       res["programs"], nontriv, mism[:10],
                       "random well-formed programs (seeded; labels, break/continue, try/finally, do-while biased) wrapped as function/getter/switch + ALL programs up to a small size (exhaustive, seed independent); "
                       "non-trivial := more than 2 statements; %d info entries and %d diagnostics compared" % (res["info_entries"], res["diags"]),
                       samples=[{"examples_by_class": {k: [e["src"] for e in v[:2]] for k, v in res.get("examples", {}).items()}}],
                       distribution={"sizes": res["sizes"], "constructs": res["constructs"], "wrappers": res["wrappers"]})
    ctx.extra["exhaustive_programs"] = res["exhaustive"]
    ctx.extra["random_programs"] = res["random"]
    ctx.extra["model_oracle"] = {"violating_programs": res["violating_programs"], "classes": res["classes"], "violations": res["violations"]}
    iv = res.get("impl_violations", {})
    seen = {}
    for kind in kinds:
        for item in iv.get(kind, []):
            cls = "%s.%s:class-%s" % (prop, kind, item["class"])
            seen[cls] = seen.get(cls, 0) + 1
            if seen[cls] <= 2 or item["class"] == "unexplained" and seen[cls] <= 5:
                ctx.violation(cls, "%s violated on the implementation at offset %s: %s" % (kind, item["offset"], (item.get("minimal") or item["src"])[:160]),
                              {"src": item["src"], "minimal": item.get("minimal"), "offset": item["offset"], "kind": kind,
                               "replay": "echo '{\"src\": <src>, \"media\": \"js\", \"rules\": [\"no-unreachable\",\"getter-return\",\"no-fallthrough\"]}' | harness/target/release/vh lint"})
    # violations that only the model oracle sees (model == implementation, so they are implementation violations too)
    for u in res.get("unexplained", [])[:3]:
        ctx.violation("%s.model-oracle:unexplained" % prop, "oracle violation not explained by a known class: %s" % u["src"][:160], u)
    ctx.extra["impl_level_violations"] = {k: len(v) for k, v in iv.items()}
    # dependency finding: swc's cast_to_bool on NaN-valued arithmetic (fixed corpus, implementation against the semantics)
    if prop == "C10":
        dep = cf.dependency_findings()
        ctx.extra["dependency_corpus"] = {"programs": len(cf.DEP_CORPUS_G) + len(cf.DEP_RAW_G), "violations": len(dep)}
        for n, item in enumerate(dep):
            if n < 2:
                ctx.violation("C10." + cf.DEP_CLASS_G,
                              "c10 violated on the implementation at offset %s (the loop test is NaN-valued, swc's cast_to_bool says Known(true)): %s" % (item["offset"], item["src"]),
                              {"src": item["src"], "offset": item["offset"], "kind": "c10",
                               "replay": "echo '{\"src\": <src>, \"media\": \"js\", \"rules\": [\"no-unreachable\"]}' | harness/target/release/vh lint"})


# ----------------------------------------------------------------------------
# C11, property-level family "getter forms": the same getter body, written in every syntactic form that getter-return
# knows (object / class / static / private getters; property descriptors for Object.defineProperty, Reflect.defineProperty,
# Object.defineProperties, Object.create with `get() {}`, `get: function () {}`, `get: () => {}`), with a spread element and
# other properties before / after the accessor.  An offending body (no return, or a path that falls off the end) must be
# reported exactly once in every form, like in the plain object getter; the twin body `return 1;` must be silent.
# ----------------------------------------------------------------------------
GF_BAD_BODIES = [("empty", "{ }"), ("try-falls-off", "{ try { return f(); } catch { } }"), ("if-falls-off", "{ if (a) return 1; }"),
                 ("loop-break", "{ while (true) { if (a) break; return 1; } }")]
GF_GOOD_BODY = "{ return 1; }"
GF_ACCESSORS = [("method", "get() %s"), ("function", "get: function () %s"), ("named-function", "get: function g() %s"), ("arrow", "get: () => %s")]
# (name, text before the accessor, text after it) inside the descriptor literal
GF_SURROUNDINGS = [("alone", "", ""), ("spread-before", "...base, ", ""), ("spread-after", "", ", ...rest"), ("props-before", "enumerable: true, set(v) { }, ", ""),
                   ("props-after", "", ", configurable: true"), ("spread-and-props-around", "a: 1, ...base, b: 2, ", ", c: 3, ...rest, d: 4"),
                   ("two-spreads-before", "...b1, ...b2, ", "")]
GF_APIS = [("Object.defineProperty", "Object.defineProperty(o, 'x', %s);", False), ("Reflect.defineProperty", "Reflect.defineProperty(o, 'x', %s);", False),
           ("Object.defineProperties", "Object.defineProperties(o, { %sfoo: %s%s });", True), ("Object.create", "Object.create(o, { %sfoo: %s%s });", True),
           ("Object.defineProperty-optional-call", "Object.defineProperty?.(o, 'x', %s);", False), ("Object.defineProperty-parenthesised", "(Object.defineProperty)(o, 'x', %s);", False)]
# the entry that holds the descriptor, inside the map of descriptors
GF_MAP_SURROUNDINGS = [("", "", ""), ("map-spread-before", "...others, ", ""), ("map-entries-around", "bar: { value: 1 }, ...others, ", ", baz: { value: 2 }, ...more")]
GF_PLAIN = [("object-getter", "x = { get p() %s };"), ("object-getter-among-props", "x = { a: 1, ...base, get p() %s, ...rest, b: 2 };"),
            ("object-getter-computed", "x = { get [k]() %s };"), ("object-getter-string-key", "x = { get 'p q'() %s };"),
            ("class-getter", "class K { get p() %s }"), ("static-class-getter", "class K { static get p() %s }"), ("private-class-getter", "class K { get #p() %s }"),
            ("static-private-class-getter", "class K { static get #p() %s }"), ("class-expression-getter", "x = class { get p() %s };"),
            ("class-getter-after-members", "class K { a = 1; m() { return 1; } static { } get p() %s }"),
            ("nested-object-getter", "x = { inner: { get p() %s } };"), ("getter-in-call-argument", "f({ get p() %s });"),
            ("getter-in-default-parameter", "function w(a = { get p() %s }) { return a; }")]


def getter_form_programs():
    """-> [(form name, template with one %s for the getter body)]"""
    out = list(GF_PLAIN)
    for aname, acc in GF_ACCESSORS:
        for sname, pre, post in GF_SURROUNDINGS:
            desc = "{ " + pre + acc + post + " }"
            for api, tpl, is_map in GF_APIS:
                if is_map:
                    for mname, mpre, mpost in GF_MAP_SURROUNDINGS:
                        out.append(("%s:%s:%s%s" % (api, aname, sname, (":" + mname) if mname else ""), tpl % (mpre, desc, mpost)))
                else:
                    out.append(("%s:%s:%s" % (api, aname, sname), tpl % desc))
    return out


def getter_forms(ctx):
    forms = getter_form_programs()
    cases, meta = [], []
    for fname, tpl in forms:
        for bname, body in GF_BAD_BODIES + [("returns", GF_GOOD_BODY)]:
            src = tpl % body
            cases.append({"src": src, "media": "ts", "rules": ["getter-return"]})
            meta.append((fname, bname, src))
    res = lib.run_vh("lint", cases)
    n = ok = 0
    seen = {}
    for (fname, bname, src), r in zip(meta, res):
        if r is None or "ok" not in r:
            ctx.violation("C11.getter-forms:no-verdict:%s" % fname, "no verdict (%s) for %s" % (json.dumps(r)[:120], src), {"program": src, "result": r})
            continue
        got = len([d for d in r["ok"] if d["code"] == "getter-return"])
        want = 0 if bname == "returns" else 1
        n += 1
        if got == want:
            ok += 1
            continue
        kind = "missed" if got < want else "reported-although-it-returns" if want == 0 else "reported-%d-times" % got
        cls = "C11.getter-forms:%s:%s" % (kind, fname)
        seen[cls] = seen.get(cls, 0) + 1
        if seen[cls] <= 1 and len(seen) <= 6:      # at most six classes are reported in detail, all are counted
            ctx.violation(cls, "getter-return: the getter body `%s` written as %s is reported %d time(s), the plain object getter %d time(s): %s" % (
                              dict(GF_BAD_BODIES + [("returns", GF_GOOD_BODY)])[bname], fname, got, want, src),
                          {"program": src, "rule": "getter-return", "expected_reports": want, "got_reports": got,
                           "replay": "echo '{\"src\": <program>, \"media\": \"ts\", \"rules\": [\"getter-return\"]}' | harness/target/release/vh lint"})
    ctx.correspondence("getter forms: %d syntactic forms of a getter (object / class / static / private getters, descriptors for Object.defineProperty, "
                       "Reflect.defineProperty, Object.defineProperties, Object.create with method / function / arrow accessors, spread elements and other "
                       "properties around the accessor and around the descriptor) x %d bodies: an offending body is reported once, `return 1;` never" % (
                           len(forms), len(GF_BAD_BODIES) + 1),
                       n, ok, [], "%d verdicts differ (%d classes); non-trivial := verdict obtained;" % (n - ok, len(seen)) + "  expected count 1 for the %d offending bodies, 0 for the returning twin" % len(GF_BAD_BODIES))


def function_kinds(ctx, prefix, rules):
    """property-level family shared with C08: every function-like wrapper (57 kinds: declarations, expressions, arrows, class /
    object / private / static / computed methods, object and class accessors, constructors, field arrows, export default)
    gives the verdict of the plain function expression, as boundary and as container, for the rules that read the
    control-flow analysis"""
    import props_c08
    props_c08.function_kind_family(ctx, prefix=prefix, only_rules=set(rules))


@register("C10")
def c10(ctx):
    common(ctx, "C10", ["c10"])
    function_kinds(ctx, "C10", ["no-unreachable"])


@register("C11")
def c11(ctx):
    common(ctx, "C11", ["getter", "cases"])
    function_kinds(ctx, "C11", ["getter-return", "no-fallthrough"])
    getter_forms(ctx)
