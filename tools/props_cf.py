# C10 / C11 — control-flow analysis soundness (no-unreachable, getter-return, no-fallthrough).
import json
import lib
from lib import log
from props import register
import cf

_cache = {}


def run_compare(ctx):
    key = (ctx.tier, ctx.seed)
    if key not in _cache:
        _cache[key] = cf.compare_all(ctx.tier, ctx.seed)
    return _cache[key]


def common(ctx, prop, kinds):
    ctx.assumptions.append("statement language with byte offsets (nested function declarations, arrow / getter expression statements, function-likes in for-in/of heads); classes and the Visit glue of the three rules are covered by the correspondence only; "
                           "function declarations are hoisted to the top of their statement list in the specification; "
                           "swc's cast_to_bool / ExprCtx (constant conditions) is an input of the model: the test kinds are known-true (pure, or after an expression that may throw), never-true, always-true-but-unknown-to-swc and opaque, for the ~40 spellings the generator uses; NaN-valued arithmetic, for which swc answers Known(true), is a known dependency finding")
    ctx.proof_stage(prop, ["CF/SoundnessCurrent.vo"])
    res = run_compare(ctx)
    mism = res["mismatches"]
    nontriv = res["programs"] - res["sizes"].get("1-2", 0)
    ctx.correspondence("Coq model of control_flow/mod.rs (fixes A,B,D,E,F = current code) vs ControlFlow::analyze: info map entry by entry + the three rules' diagnostics; ghost analyzer vs map analyzer",
                       res["programs"], nontriv, mism[:10],
                       "random well-formed programs (seeded; labels, break/continue, try/finally, do-while biased) wrapped as function/getter/switch + ALL programs up to a small size (exhaustive, seed independent); "
                       "non-trivial := more than 2 statements; %d info entries and %d diagnostics compared" % (res["info_entries"], res["diags"]),
                       samples=[{"examples_by_class": {k: [e["src"] for e in v[:2]] for k, v in res.get("examples", {}).items()}}],
                       distribution={"sizes": res["sizes"], "constructs": res["constructs"], "wrappers": res["wrappers"]})
    ctx.extra["exhaustive_programs"] = res["exhaustive"]
    ctx.extra["random_programs"] = res["random"]
    ctx.extra["model_oracle"] = {"violating_programs": res["violating_programs"], "classes": res["classes"], "violations": res["violations"]}
    iv = res.get("impl_violations", {})
    seen = {}
    for kind in kinds:
        for item in iv.get(kind, []):
            cls = "%s.%s:class-%s" % (prop, kind, item["class"])
            seen[cls] = seen.get(cls, 0) + 1
            if seen[cls] <= 2 or item["class"] == "unexplained" and seen[cls] <= 5:
                ctx.violation(cls, "%s violated on the implementation at offset %s: %s" % (kind, item["offset"], (item.get("minimal") or item["src"])[:160]),
                              {"src": item["src"], "minimal": item.get("minimal"), "offset": item["offset"], "kind": kind,
                               "replay": "echo '{\"src\": <src>, \"media\": \"js\", \"rules\": [\"no-unreachable\",\"getter-return\",\"no-fallthrough\"]}' | harness/target/release/vh lint"})
    # violations that only the model oracle sees (model == implementation, so they are implementation violations too)
    for u in res.get("unexplained", [])[:3]:
        ctx.violation("%s.model-oracle:unexplained" % prop, "oracle violation not explained by a known class: %s" % u["src"][:160], u)
    ctx.extra["impl_level_violations"] = {k: len(v) for k, v in iv.items()}
    # dependency finding: swc's cast_to_bool on NaN-valued arithmetic (fixed corpus, implementation against the semantics)
    if prop == "C10":
        dep = cf.dependency_findings()
        ctx.extra["dependency_corpus"] = {"programs": len(cf.DEP_CORPUS_G) + len(cf.DEP_RAW_G), "violations": len(dep)}
        for n, item in enumerate(dep):
            if n < 2:
                ctx.violation("C10." + cf.DEP_CLASS_G,
                              "c10 violated on the implementation at offset %s (the loop test is NaN-valued, swc's cast_to_bool says Known(true)): %s" % (item["offset"], item["src"]),
                              {"src": item["src"], "offset": item["offset"], "kind": "c10",
                               "replay": "echo '{\"src\": <src>, \"media\": \"js\", \"rules\": [\"no-unreachable\"]}' | harness/target/release/vh lint"})


@register("C10")
def c10(ctx):
    common(ctx, "C10", ["c10"])


@register("C11")
def c11(ctx):
    common(ctx, "C11", ["getter", "cases"])
