# C19 — dlint's report and exit status do not depend on scheduling.
import json, os, random, shutil, subprocess, time, collections
import lib, pipe
from lib import log
from props import register

TARGET = os.path.join(lib.WORK, "target-dlint")

CLEAN = ["export function f(a) { return a + 1; }\n", "export const a = 1;\n", "// nothing\n", ""]
DIRTY = ["debugger;\n", "var a = 1;\nexport { a };\n", "export function f() { debugger; if (x == 1) { } }\n",
         "// deno-lint-ignore no-debugger\ndebugger;\nlet x = 1; x = 2; export { x };\nfor (;;) { debugger; }\n",
         "export const x = <div key={1}>a > b</div>;\n",
         # directives naming a real rule that is NOT in the recommended set, an unknown rule, a selected rule that does not fire
         "// deno-lint-ignore eqeqeq\nexport const q = 1;\n", "// deno-lint-ignore-file camelcase no-console\ndebugger;\n",
         "// deno-lint-ignore no-such-rule eqeqeq\ndebugger;\n", "// deno-lint-ignore no-debugger\nexport const r = 2;\n"]
RECOVERABLE = ["with (a) {}\n", "with (a) { debugger; }\n", "export const a = 1;\nwith (b) {}\nwith (c) {}\n",
               "// deno-lint-ignore-file\nwith (a) {}\n", "// deno-lint-ignore-file no-with no-empty\nwith (a) {}\n"]
MEDIA_OF = {".ts": "ts", ".js": "js", ".tsx": "tsx", ".jsx": "jsx", ".mjs": "mjs"}
FATAL = ["let = ;\n", "function ( {\n"]


def build_dlint(ctx):
    t = time.time()
    p = lib.sh(["cargo", "build", "--release", "--example", "dlint", "--offline", "--quiet", "--target-dir", TARGET],
               cwd=lib.REPO, timeout=2400, check=False)
    if p.returncode != 0:
        raise lib.Infra("dlint example does not build:\n" + p.stdout[-4000:])
    log("[build] dlint %.1fs" % (time.time() - t))
    return os.path.join(TARGET, "release", "examples", "dlint")


def run_dlint(exe, cwd, args, threads):
    env = dict(lib.ENV)
    env["RAYON_NUM_THREADS"] = str(threads)
    env["NO_COLOR"] = "1"
    p = subprocess.run([exe, "run"] + args, cwd=cwd, env=env, stdout=subprocess.PIPE, stderr=subprocess.PIPE, text=True, timeout=120)
    return p.returncode, p.stdout, p.stderr


def split_count(stderr):
    lines = stderr.split("\n")
    if lines and lines[-1] == "":
        lines.pop()
    n = 0
    if lines and lines[-1].startswith("Found ") and "problem" in lines[-1]:
        n = int(lines[-1].split()[1])
        lines.pop()
    return lines, n


def gen_dir(rng, root, idx, allow_fatal):
    d = os.path.join(root, "case%04d" % idx)
    os.makedirs(d)
    n = rng.choice([1, 2, 3, 5, 8, 13, 24, 40])
    names = set()
    files = []
    while len(files) < n:
        nm = rng.choice(["a", "b", "f", "a-b", "a_b", "z", "mod", "A", "é"]) + rng.choice(["", "0", "1", "07", ".test", "-x"]) + rng.choice([".ts", ".ts", ".js", ".tsx", ".jsx", ".mjs"])
        if nm in names:
            continue
        names.add(nm)
        k = rng.random()
        if k < 0.3:
            kind, src = "clean", rng.choice(CLEAN)
        elif k < 0.7:
            kind, src = "dirty", rng.choice(DIRTY)
        elif k < 0.95 or not allow_fatal:
            kind, src = "recoverable", rng.choice(RECOVERABLE)
        else:
            kind, src = "fatal", rng.choice(FATAL)
        if kind == "dirty" and "<div" in src and not nm.endswith(("x",)):
            src = "debugger;\n"
        with open(os.path.join(d, nm), "w") as f:
            f.write(src)
        files.append({"name": nm, "kind": kind, "src": src})
    return d, files


def dlint_fatal_determinism(ctx, prefix="C19"):
    """A directory with ONE unparsable file among files with diagnostics: the report must be the same for every thread count / order."""
    dl = build_dlint(ctx)
    root = os.path.join(lib.WORK, "dlint-fatal-%s" % prefix)
    shutil.rmtree(root, ignore_errors=True)
    os.makedirs(root)
    rng = random.Random(ctx.seed + 1900)
    names = ["f%02d.ts" % i for i in range(40)]
    for i, nm in enumerate(names):
        open(os.path.join(root, nm), "w").write("function (\n" if i == 17 else "debugger;\n")
    runs = []
    for th in (1, 2, 3, 4, 8, 16, 2, 8):
        args = names[:]
        rng.shuffle(args)
        rc, so, se = run_dlint(dl, root, ["--rule", "no-debugger", "--format", "compact"] + args, th)
        runs.append((th, rc, se))
    if len({se for _, _, se in runs}) > 1 or any(rc == 0 for _, rc, _ in runs):
        a = runs[0]; b = next((r for r in runs if r[2] != a[2]), runs[-1])
        ctx.violation("%s.dlint-report-depends-on-schedule-with-unparsable-file" % prefix,
                      "40 files, one unparsable: stderr/exit differ between thread counts %d and %d" % (a[0], b[0]),
                      {"dir": root, "run_a": {"threads": a[0], "exit": a[1], "stderr": a[2][-1200:]}, "run_b": {"threads": b[0], "exit": b[1], "stderr": b[2][-1200:]}})
    # the same path listed more than once (command line twice / overlapping globs): the report must not depend on
    # which occurrence finishes first
    big = "\n".join("debugger;" for _ in range(400)) + "\n"
    open(os.path.join(root, "dup_big.ts"), "w").write(big)
    open(os.path.join(root, "dup_small.ts"), "w").write("debugger;\n")
    druns = []
    for th in (1, 2, 4, 8, 16, 1, 8):
        args = ["dup_big.ts", "dup_small.ts", "dup_big.ts", "f00.ts", "dup_small.ts", "dup_big.ts"]
        rng.shuffle(args)
        rc, so, se = run_dlint(dl, root, ["--rule", "no-debugger", "--format", "compact"] + args, th)
        druns.append((th, rc, se))
    if len({(rc, se) for _, rc, se in druns}) > 1:
        a = druns[0]; b = next((r for r in druns if (r[1], r[2]) != (a[1], a[2])), druns[-1])
        ctx.violation("%s.dlint-report-depends-on-schedule-with-duplicate-paths" % prefix,
                      "a path listed several times: stderr/exit differ between thread counts %d and %d" % (a[0], b[0]),
                      {"dir": root, "run_a": {"threads": a[0], "exit": a[1], "stderr": a[2][-600:]}, "run_b": {"threads": b[0], "exit": b[1], "stderr": b[2][-600:]}})
    # many files (more than any plausible "small run" threshold): the report is the same for every thread count
    mroot = os.path.join(root, "manyfiles")
    os.makedirs(mroot)
    mnames = ["m%03d.ts" % i for i in range(300)]
    for i, nm in enumerate(mnames):
        open(os.path.join(mroot, nm), "w").write("debugger;\n" if i % 3 else "export {};\n")
    mruns = []
    for th in (1, 4, 16, 8):
        rc, so, se = run_dlint(dl, mroot, ["--rule", "no-debugger", "--format", "compact"] + mnames, th)
        mruns.append((th, rc, se))
    if len({(rc, se) for _, rc, se in mruns}) > 1:
        a = mruns[0]; b = next((r for r in mruns if (r[1], r[2]) != (a[1], a[2])), mruns[-1])
        ctx.violation("%s.dlint-report-depends-on-schedule-with-many-files" % prefix, "300 files: stderr/exit differ between thread counts %d and %d" % (a[0], b[0]),
                      {"dir": mroot, "run_a": {"threads": a[0], "exit": a[1], "stderr": a[2][:400]}, "run_b": {"threads": b[0], "exit": b[1], "stderr": b[2][:400]}})
    # exit status and count for totals around and at multiples of 256 (one file, and split over two files)
    nbig = 0
    for total in (255, 256, 257, 512, 65536):
        if total > 1000 and ctx.tier == "quick":
            continue
        for split in (False, True):
            a_n = total if not split else total - 3
            open(os.path.join(root, "many_a.ts"), "w").write("debugger;\n" * a_n)
            open(os.path.join(root, "many_b.ts"), "w").write("debugger;\n" * (total - a_n))
            rc, so, se = run_dlint(dl, root, ["--rule", "no-debugger", "--format", "compact", "many_a.ts"] + (["many_b.ts"] if split else []), 4)
            nbig += 1
            lines, cnt = split_count(se)
            if cnt != total or rc == 0:
                ctx.violation("%s.dlint-count-or-exit-at-%d" % (prefix, total), "%d problems expected: dlint says %d and exits %d" % (total, cnt, rc), {"dir": root, "total": total, "split": split, "stderr_tail": se[-300:]})
    return len(runs) + len(druns) + nbig + dlint_config_files(ctx, dl, prefix)


def dlint_config_files(ctx, dl, prefix):
    """File lists that come from --config (absolute paths, globs, excludes) together with command-line files: every selected
    dirty file is reported exactly once per listing, blocks come in the order of the printed paths, and neither the order of
    the config's entries, nor the order of the arguments, nor the thread count changes the report."""
    import re as _re
    root = os.path.join(lib.WORK, "dlint-config-%s" % prefix)
    shutil.rmtree(root, ignore_errors=True)
    os.makedirs(os.path.join(root, "sub"))
    rng = random.Random(ctx.seed + 1901)
    files = {"a.ts": True, "b.ts": False, "c.ts": True, "d.ts": True, "sub/e.ts": True, "sub/f.ts": False, "sub/g.ts": True, "sub/x.ts": True,
             # every extension the linter knows, matched by a glob of the config
             "kinds/k.js": True, "kinds/k.mjs": True, "kinds/k.cjs": True, "kinds/k.jsx": True, "kinds/k.tsx": True, "kinds/k.mts": True, "kinds/k.cts": True,
             "kinds/k.d.ts": True, "kinds/k.d.mts": True, "kinds/k.d.cts": True}
    os.makedirs(os.path.join(root, "kinds"))
    for nm, dirty in files.items():
        open(os.path.join(root, nm), "w").write("debugger;\n" if dirty else "export {};\n")
    ab = lambda nm: os.path.join(os.path.realpath(root), nm)
    plans = [  # (config include, config exclude, command-line files, files expected to be linted)
        ([ab("a.ts")], [], ["b.ts", "c.ts"], ["a.ts", "b.ts", "c.ts"]),
        ([ab("b.ts"), ab("c.ts")], [], [], ["b.ts", "c.ts"]),
        ([ab("c.ts"), ab("b.ts")], [], [], ["b.ts", "c.ts"]),
        ([ab("b.ts"), ab("a.ts"), ab("sub/f.ts"), ab("d.ts")], [], [], ["a.ts", "b.ts", "d.ts", "sub/f.ts"]),
        ([ab("sub/f.ts"), ab("sub/e.ts"), ab("a.ts")], [], ["d.ts"], ["a.ts", "d.ts", "sub/e.ts", "sub/f.ts"]),
        (["sub/*.ts"], ["sub/x.ts"], ["a.ts"], ["a.ts", "sub/e.ts", "sub/f.ts", "sub/g.ts"]),
        (["sub/*.ts", ab("c.ts"), ab("d.ts")], [], [], ["c.ts", "d.ts", "sub/e.ts", "sub/f.ts", "sub/g.ts", "sub/x.ts"]),
        (["*.ts"], [], [], ["a.ts", "b.ts", "c.ts", "d.ts", "sub/e.ts", "sub/f.ts", "sub/g.ts", "sub/x.ts", "kinds/k.d.ts"]),     # gitignore-style: any depth
        (["kinds/*"], [], [], ["kinds/k.js", "kinds/k.mjs", "kinds/k.cjs", "kinds/k.jsx", "kinds/k.tsx", "kinds/k.mts", "kinds/k.cts", "kinds/k.d.ts", "kinds/k.d.mts", "kinds/k.d.cts"]),
        (["kinds/*.d.*"], [], ["a.ts"], ["a.ts", "kinds/k.d.ts", "kinds/k.d.mts", "kinds/k.d.cts"]),
    ]
    n = 0
    for pi, (inc, exc, cli, want_files) in enumerate(plans):
        reports = []
        for rep in range(4):
            inc2 = inc[:]; cli2 = cli[:]
            if rep:
                rng.shuffle(inc2); rng.shuffle(cli2)
            cfgp = os.path.join(root, "cfg-%d-%d.json" % (pi, rep))
            json.dump({"rules": {"include": ["no-debugger"]}, "files": {"include": inc2, "exclude": exc}}, open(cfgp, "w"))
            th = (1, 2, 8, 16)[rep]
            rc, so, se = run_dlint(dl, root, ["--config", cfgp, "--format", "compact"] + cli2, th)
            n += 1
            lines, cnt = split_count(se)
            paths = [_re.sub(r": line \d+, col \d+, .*$", "", l) for l in lines if _re.search(r": line \d+, col \d+, ", l)]
            rel = [os.path.relpath(q.replace("file://", ""), os.path.realpath(root)) if os.path.isabs(q.replace("file://", "")) else q for q in paths]
            want_dirty = sorted(f for f in want_files if files[f])
            if sorted(rel) != want_dirty or cnt != len(want_dirty):
                ctx.violation("%s.dlint-config-file-list" % prefix, "config include %s exclude %s + arguments %s: reported files %s (count %d), expected %s" % (inc2, exc, cli2, rel, cnt, want_dirty),
                              {"dir": root, "config": cfgp, "args": cli2, "threads": th, "stderr": se[-800:]})
                break
            if paths != sorted(paths):
                ctx.violation("%s.dlint-config-report-order" % prefix, "the blocks of the report are not in path order: %s" % paths, {"dir": root, "config": cfgp, "args": cli2, "threads": th, "stderr": se[-800:]})
                break
            reports.append(se)
        if len(set(reports)) > 1:
            ctx.violation("%s.dlint-config-report-depends-on-listing-order" % prefix, "the same file set listed in another order gives another report", {"dir": root, "plan": pi, "reports": reports[:2]})
    return n


def dlint_selection(ctx, dl, prefix, rng):
    """--rule and --config (tags / include / exclude, keys present or omitted) run exactly the selected rules."""
    evaluations = 0
    # rule selection: --rule and --config run exactly the selected rules
    seld = os.path.join(lib.WORK, "dlint-select-%s" % prefix)
    shutil.rmtree(seld, ignore_errors=True)
    os.makedirs(seld)
    src = ("debugger;\nvar a = 1;\nif (a == 1) { }\nexport {};\nconsole.log(1);\nenum E {}\ninterface I {}\nwindow.x = 1;\nconst l = window.location;\n"
           "function f(a, a2) { if (a) {} else {} }\nclass A { constructor() {} }\nfor (;;) {}\nlet u: any = 1;\n// TODO\nnew Symbol();\n"
           "// deno-lint-ignore eqeqeq camelcase no-such-rule\nlet w = 1;\n// deno-lint-ignore no-console\nlet w2 = w;\n")
    open(os.path.join(seld, "s.ts"), "w").write(src)
    reg = lib.vh_registry()
    tagmap = {r["code"]: set(r["tags"]) for r in reg["rules"]}
    allcodes = sorted(tagmap)
    prefix_rules = [c for c in allcodes if any(o != c and o.startswith(c) for o in allcodes)]
    sel_cases = [("--rule", c, None) for c in ["no-debugger", "eqeqeq", "no-console"] + prefix_rules]
    for i in range(6 if ctx.tier == "quick" else 40):
        cfg = {"rules": {"tags": rng.choice([[], ["recommended"], ["jsx", "react"], ["recommended", "fresh"]]),
                         "include": rng.sample(["no-console", "eqeqeq", "no-var", "nope", "no-debugger"], rng.randint(0, 3)),
                         "exclude": rng.sample(["no-debugger", "no-var", "eqeqeq", "nope"], rng.randint(0, 2))}}
        p = os.path.join(seld, "cfg%d.json" % i)
        written = {"rules": dict(cfg["rules"])}
        if i % 3 == 1:
            # an omitted key means the empty list
            for key in ("tags", "include", "exclude"):
                if not written["rules"][key] and rng.random() < 0.8:
                    del written["rules"][key]
        json.dump(written, open(p, "w"))
        sel_cases.append(("--config", p, cfg))
    for i, (written, cfg) in enumerate([({"rules": {"include": ["no-console"]}}, {"rules": {"tags": [], "include": ["no-console"], "exclude": []}}),
                                        ({"rules": {"exclude": ["no-var"]}}, {"rules": {"tags": [], "include": [], "exclude": ["no-var"]}}),
                                        ({}, {"rules": {"tags": [], "include": [], "exclude": []}}),
                                        ({"rules": {}}, {"rules": {"tags": [], "include": [], "exclude": []}}),
                                        ({"rules": {"tags": ["recommended"]}}, {"rules": {"tags": ["recommended"], "include": [], "exclude": []}})]):
        p = os.path.join(seld, "cfgk%d.json" % i)
        json.dump(written, open(p, "w"))
        sel_cases.append(("--config", p, cfg))
    for (flag, val, cfg) in sel_cases:
        rc, so, se = run_dlint(dl, seld, [flag, val, "--format", "compact"] + ([] if False else ["s.ts"]), 2)
        evaluations += 1
        lines, n = split_count(se)
        got_codes = sorted(l[l.rfind("(") + 1:-1] for l in lines if l.endswith(")"))
        if cfg is None:
            want_rules = [val]
        else:
            T, X, I = set(cfg["rules"]["tags"]), set(cfg["rules"]["exclude"]), set(cfg["rules"]["include"])
            want_rules = sorted(c for c in tagmap if ((tagmap[c] & T) or c in I) and c not in X)
        if not want_rules:
            if rc == 0:
                ctx.violation("%s.no-rules-accepted" % prefix, "no rule selected but exit 0", {"cfg": cfg})
            continue
        res = lib.run_vh("lint", [{"src": src, "media": "ts", "rules": want_rules, "jsx": "React.createElement", "jsxfrag": "React.Fragment"}])[0]
        want_codes = sorted(d["code"] for d in res.get("ok", []))
        if got_codes != want_codes:
            ctx.violation("%s.rule-selection" % prefix, "%s %s ran codes %s, expected %s" % (flag, val, got_codes, want_codes), {"cfg": cfg, "stderr": se[-1500:]})
    return evaluations


@register("C19")
def c19(ctx):
    ctx.assumptions.append("each eprintln!/atomic fetch_add/locked BTreeMap insert is one atomic action; OS pipe line atomicity assumed; with >= 2 fatally unparsable files only the exit status is specified (which Err rayon returns is schedule dependent)")
    ctx.proof_stage("C19", ["Dlint/DlintProofs.vo"])
    exe, out = lib.build_model("dlint")
    if exe is None:
        ctx.obligation("extraction + build of the dlint model driver", False, out[-2000:])
        return
    dl = build_dlint(ctx)
    root = os.path.join(lib.WORK, "dlint-cases")
    shutil.rmtree(root, ignore_errors=True)
    os.makedirs(root)
    rng = random.Random(ctx.seed + 19)
    ncases = 14 if ctx.tier == "quick" else 120
    reps = 3 if ctx.tier == "quick" else 10
    evaluations, nontriv = 0, set()
    mism = []
    nfail = collections.Counter()
    samples = []
    model_lines, model_meta = [], []
    fatal_reports = {}
    for ci in range(ncases):
        d, files = gen_dir(rng, root, ci, allow_fatal=(ci % 4 == 3))
        fmt = rng.choice(["compact", "pretty"])
        # per-file blocks from single-file, single-thread runs
        blocks, counts, fatal = {}, {}, {}
        for f in files:
            rc, so, se = run_dlint(dl, d, ["--format", fmt, f["name"]], 1)
            lines, n = split_count(se)
            fatal[f["name"]] = rc != 0 and n == 0 and "Error:" in se
            blocks[f["name"]] = lines
            counts[f["name"]] = n
            if fatal[f["name"]] and f["kind"] != "fatal":
                ctx.notes.append("generator: %s unexpectedly fatal" % f["name"])
            if (rc != 0) != (n > 0 or fatal[f["name"]]):
                ctx.violation("C19.exit-status-single", "single file %s: exit %d with count %d" % (f["name"], rc, n), {"dir": d, "file": f})
        # count spec against the library: lint diagnostics (recommended rules, dlint's JSX config) + recoverable parse diagnostics
        libres = lib.run_vh("lint", [{"src": f["src"], "media": MEDIA_OF[os.path.splitext(f["name"])[1]], "rules": "recommended",
                                      "jsx": "React.createElement", "jsxfrag": "React.Fragment"} for f in files])
        for f, lr in zip(files, libres):
            if "ok" in lr and not fatal[f["name"]]:
                want = len(lr["ok"]) + lr.get("parse_diags", 0)
                if counts[f["name"]] != want:
                    ctx.violation("C19.count-differs-from-library", "%s: dlint counts %d problems, library gives %d lint + %d recoverable parse diagnostics" % (
                        f["name"], counts[f["name"]], len(lr["ok"]), lr.get("parse_diags", 0)), {"dir": d, "file": f})
        any_fatal = any(fatal.values())
        names = [f["name"] for f in files]
        order = sorted(names, key=lambda s: s.encode("utf8"))
        expected = []
        for nm in order:
            expected += blocks[nm]
        total = sum(counts.values())
        # the model's prediction for this file set (extracted Coq model, identity schedule and reversed schedule)
        model_lines.append(pipe.enc_list(files, lambda f: "%s %d %d %d" % (pipe.enc_str(f["name"]), 1 if fatal[f["name"]] else 0,
                                                                             0, counts[f["name"]])))
        model_meta.append((total, any_fatal, order))
        for rep in range(reps + (5 if any_fatal else 0)):
            th = rng.choice([1, 2, 3, 4, 8, 16]) if rep else 1
            args = names[:]
            rng.shuffle(args)
            rc, so, se = run_dlint(dl, d, ["--format", fmt] + args, th)
            evaluations += 1
            lines, n = split_count(se)
            if len(files) > 1 and total > 0:
                nontriv.add((ci,))
            if any_fatal:
                if rc == 0:
                    ctx.violation("C19.exit-status-fatal", "a file fails to parse but exit status 0", {"dir": d, "args": args, "threads": th})
                # with exactly one unparsable file the whole report must still not depend on schedule or argument order
                if sum(1 for v in fatal.values() if v) == 1:
                    fatal_reports.setdefault(ci, []).append((th, args, se))
                continue
            want_rc = 1 if total > 0 else 0
            if rc != want_rc or n != total:
                nfail["count"] += 1
                if nfail["count"] <= 2:
                    ctx.violation("C19.count-or-exit", "exit %d count %d, expected exit %d count %d" % (rc, n, want_rc, total),
                                  {"dir": d, "args": args, "threads": th, "stderr": se[-2000:]})
            if lines != expected:
                nfail["order"] += 1
                if nfail["order"] <= 2:
                    ctx.violation("C19.report-depends-on-schedule-or-argument-order",
                                  "stderr differs from the per-file reports concatenated in path order (threads=%d)" % th,
                                  {"dir": d, "files": files, "args": args, "threads": th, "format": fmt, "got": lines[:40], "expected": expected[:40],
                                   "replay": "cd %s && RAYON_NUM_THREADS=%d %s run --format %s %s" % (d, th, dl, fmt, " ".join(args))})
        if ci < 2:
            samples.append({"dir": d, "files": [(f["name"], f["kind"]) for f in files], "format": fmt, "total": total})
    for ci, runs in fatal_reports.items():
        outs = {se for (_, _, se) in runs}
        if len(outs) > 1:
            a, b = runs[0], next(r for r in runs if r[2] != runs[0][2])
            ctx.violation("C19.report-depends-on-schedule-with-unparsable-file", "one file fails to parse: the report differs between runs (threads %d vs %d)" % (a[0], b[0]),
                          {"dir": os.path.join(root, "case%04d" % ci), "run_a": {"threads": a[0], "args": a[1], "stderr": a[2][-1500:]}, "run_b": {"threads": b[0], "args": b[1], "stderr": b[2][-1500:]}})
    # model vs implementation: count / exit / order of blocks
    mod = lib.run_model("dlint", "run", model_lines)
    for line, (total, any_fatal, order) in zip(mod, model_meta):
        r = pipe.Reader(line)
        m_fatal = r.int()
        m_code = r.int()
        m_count = r.int()
        m_order = r.list(r.str)
        m_same = r.int()
        exp_order = [nm for nm in order]
        if (m_fatal == 1) != any_fatal or m_code != (1 if (any_fatal or total > 0) else 0) or (not any_fatal and (m_count != total or m_order != exp_order)) or m_same != 1:
            mism.append({"model": line, "impl_total": total, "impl_fatal": any_fatal, "impl_order": order})
    evaluations += dlint_selection(ctx, dl, "C19", rng)
    evaluations += dlint_fatal_determinism(ctx, "C19")
    ctx.correspondence("dlint binary vs per-file reports merged by the model (threads 1-16, shuffled argument orders, %d repetitions)" % reps,
                       evaluations, len(nontriv), mism[:5],
                       "generated directories (1-40 files; clean/dirty/recoverable-parse/fatal; 6 extensions; compact and pretty); expected stderr = single-file "
                       "single-thread reports concatenated in path order + total count; model = extracted Coq dlint_run under identity and reversed schedules; "
                       "non-trivial := >= 2 files and a non-zero count", samples=samples)
