# Checks whose correspondence/search stage is a differential run of the implementation over the
# repo's own test programs + generated scenarios: C02 C03 C04 C09 C16 (proof stage: Props/Cxx.v).
import collections, json, os, random, sys, time
import lib, pipe, pipespec
from lib import log
from props import register
import props_pipeline as PP
sys.path.insert(0, os.path.join(lib.ROOT, "translate"))
import corpus as corpus_mod

MEDIA = ["ts", "tsx", "js", "jsx"]
_corpus = None


def get_corpus():
    global _corpus
    if _corpus is None:
        _corpus = corpus_mod.corpus(lib.REPO)
    return _corpus


def sample_corpus(rng, n):
    c = get_corpus()
    if n >= len(c):
        return list(c)
    return rng.sample(c, n)


def diag_key(d):
    return (d["code"], d["start"], d["end"], d["msg"], d.get("hint"), json.dumps(d.get("fixes"), sort_keys=True))


def keys(res):
    if res is None or "ok" not in res:
        return None
    return [diag_key(d) for d in res["ok"]]


def status(res):
    if res is None:
        return "none"
    for k in ("ok", "parse_error", "panic", "crash"):
        if k in res:
            return k
    return "other"


# ------------------------------------------------------------------ C16
@register("C16")
def c16(ctx):
    ctx.assumptions.append("lint_file and lint_with_ast are the same model function of the parsed file; their agreement on the implementation is established only by the differential run below")
    r = PP.pipeline_check(ctx, "C16", {"force": None, "clauses": ["C05", "C06", "C07", "C03"]})
    if r is None:
        return
    scs, outs, outs0, builtin = r
    rng = random.Random(ctx.seed + 16)
    # entry points: scenarios (with their external results) and corpus programs (all rules)
    n = 3000 if ctx.tier == "quick" else 40000
    cases = [pipe.impl_case(s) for s in scs[:n]]
    snippets = sample_corpus(rng, 1500 if ctx.tier == "quick" else 10 ** 6)
    for sn in snippets:
        cases.append({"src": sn["src"], "media": rng.choice(MEDIA), "rules": "all"})
    # per-file configuration must reach both entry points identically: JSX programs under different factory configurations
    import props_c18
    for _ in range(600 if ctx.tier == "quick" else 6000):
        gp = props_c18.gen_program(rng)
        cf, cg = rng.choice(props_c18.CONFIGS)
        cases.append({"src": gp["src"], "media": "tsx", "rules": rng.choice(["all", ["no-unused-vars"]]), "jsx": cf, "jsxfrag": cg})
    # rarely used media types with specifiers that suggest another one: neither entry point may infer anything from the specifier
    for sn in sample_corpus(rng, 300 if ctx.tier == "quick" else 3000):
        cases.append({"src": sn["src"], "media": "unknown", "rules": "all", "spec": rng.choice(["file:///v/a.ts", "file:///v/a.tsx", "file:///v/a.jsx", "file:///v/a", "file:///v/a.js"])})
    for src in ("const x: number = 1; export { x };", "const a = <div/>;", "let y = 1 as number; y;", "debugger;", "enum E { A }", "export {};"):
        for sp in ("file:///v/a.ts", "file:///v/a.tsx", "file:///v/a.jsx", "file:///v/a.mts", "file:///v/a", "https://x.test/m?ext=.ts"):
            cases.append({"src": src, "media": "unknown", "rules": "all", "spec": sp})
    a = lib.run_vh("lint", cases)
    b = lib.run_vh("lint", [dict(c, entry="ast") for c in cases])
    mism, nontriv = [], set()
    for c, x, y in zip(cases, a, b):
        if status(x) in ("panic", "crash") or status(y) in ("panic", "crash"):
            continue   # totality is C01's business
        if keys(x) != keys(y) or status(x) != status(y):
            mism.append({"case": c, "lint_file": x, "lint_with_ast": y})
        elif keys(x):
            nontriv.add(c["src"])
    for m in mism[:3]:
        ctx.violation("C16.entry-points-differ", "lint_file and lint_with_ast disagree", m)
    ctx.correspondence("lint_file vs parse+lint_with_ast (implementation differential)", len(cases), len(nontriv), [],
                       "same text/media/config through both entry points; non-trivial := at least one diagnostic")


# ------------------------------------------------------------------ C02
@register("C02")
def c02(ctx):
    ctx.assumptions.append("HashMap iteration order is modelled as an arbitrary permutation oracle; threads as arbitrary interleavings of calls that share only the immutable Linter")
    sys.path.insert(0, os.path.join(lib.ROOT, "translate"))
    import gen_shared_state
    items = gen_shared_state.generate()
    ctx.obligation("translator: coq/Gen/SharedState.v regenerated from /repo/src (%d static items; not immutable: %s)" % (
        len(items), [x for x in items if x[2] not in ("immutable", "lazy-immutable")][:5]), True)
    r = PP.pipeline_check(ctx, "C02", {"force": None, "clauses": ["C03"]}, n=6000 if ctx.tier == "quick" else 60000)
    ctx.proof_stage("C02_regex", [])
    if r is None:
        return
    scs, outs, outs0, builtin = r
    rng = random.Random(ctx.seed + 2)
    # (a) repetition: the same case in fresh processes (fresh hasher seeds) must give identical output
    biased = [s for s in scs if s["src"].count("deno-lint-ignore") or s["fw"] or s["lw"]][:3000]
    cases = [pipe.impl_case(s) for s in biased]
    runs = [lib.run_vh("lint", cases, jobs=j) for j in (16, 7, 3)]
    nrep = 0
    for c, *rs in zip(cases, *runs):
        ks = [json.dumps(r, sort_keys=True) for r in rs]
        if len(set(ks)) > 1:
            nrep += 1
            if nrep <= 3:
                ctx.violation("C02.nondeterministic-repeat", "same input, different output across runs", {"case": c, "outputs": rs})
    # (b) history + (c) threads: one Linter over many files, different orders, 8 threads
    files = [{"src": s["src"], "media": rng.choice(MEDIA)} for s in sample_corpus(rng, 600 if ctx.tier == "quick" else 4000)]
    # scenario files keep their external-linter result (different declared rule sets on one Linter)
    files += [{"src": s["src"], "media": s["media"], "ext": s["ext"]} for s in scs[:400]]
    # files made of regular expressions that leave the validator in a "dirty" state (history dependence)
    RX = ["/(?<a>x)(/", "/\\k/", "/\\k<b>(?<a>x)/", "/abc/", "/(?<n>.)\\k<n>/u", "/[/", "/a{2,1}/", "/(?<a>a)(?<a>b)/", "/\\u{110000}/u",
          "new RegExp('(?<x>y)(')", "new RegExp('\\\\k<x>')", "/(?<=a)+/", "/\\1(a)/", "/(?:a/", "/a**/", "/\\p{Foo}/u", "/x{1,}?/"]
    for _ in range(300 if ctx.tier == "quick" else 3000):
        files.append({"src": ";\n".join(rng.choice(RX) for _ in range(rng.randint(1, 3))) + ";", "media": "js", "rx": True})
    # several deeply nested INVALID patterns followed by a deeply nested valid one (counters/stacks that are not unwound on the error path)
    for _ in range(60 if ctx.tier == "quick" else 600):
        parts = []
        for _ in range(rng.randint(2, 5)):
            d = rng.choice([40, 80, 120])
            parts.append("/" + "(?:a|(b)" * d + ")" * rng.randint(0, d // 2) + "/")
        d = rng.choice([30, 60, 100, 150])
        parts.append("/" + "(" * d + "x" + ")" * d + "/")
        parts.append("/a/")
        files.append({"src": ";\n".join(parts) + ";", "media": "js", "rx": True})
    rng.shuffle(files)
    groups = [files[i:i + 40] for i in range(0, len(files), 40)]
    multi = []
    for g in groups:
        order = list(range(len(g)))
        rev = order[::-1]
        shuf = order[:]
        rng.shuffle(shuf)
        for o, th in ((order, 0), (rev, 0), (shuf, 0), (order, 8)):
            multi.append({"linter": {"rules": "all"}, "files": g, "order": o, "threads": th})
    res = lib.run_vh("multi", multi, per_case_timeout=60)
    # "fresh" = a fresh process per file for a sample (no thread-local or static state can be shared), else a fresh Linter
    fresh = lib.run_vh("lint", [dict(f, rules="all") for f in files])
    solo_idx = rng.sample(range(len(files)), min(len(files), 250 if ctx.tier == "quick" else 2000))
    exe = lib.build_harness("release")
    import subprocess
    from concurrent.futures import ThreadPoolExecutor

    def solo(i):
        p = subprocess.run([exe, "lint"], input=json.dumps(dict(files[i], rules="all")) + "\n", stdout=subprocess.PIPE, stderr=subprocess.DEVNULL, text=True, env=lib.ENV, timeout=60)
        ls = [l for l in p.stdout.split("\n") if l and not l.startswith("#CASE")]
        return json.loads(ls[0]) if ls else {"crash": "no output"}
    with ThreadPoolExecutor(max_workers=lib.NCPU) as ex:
        solos = list(ex.map(solo, solo_idx))
    nsolo = 0
    for i, r in zip(solo_idx, solos):
        if status(r) in ("panic", "crash") or status(fresh[i]) in ("panic", "crash"):
            continue
        if json.dumps(r, sort_keys=True) != json.dumps(fresh[i], sort_keys=True):
            nsolo += 1
            if nsolo <= 3:
                ctx.violation("C02.depends-on-earlier-files-of-the-process", "a file linted in a fresh process differs from the same file linted after other files (thread-local/static state?)",
                              {"file": files[i], "fresh_process": r, "after_other_files": fresh[i]})
            fresh[i] = r
    nhist, nontriv = 0, set()
    fi = 0
    for gi, g in enumerate(groups):
        base = {}
        for j in range(len(g)):
            base[j] = json.dumps(fresh[fi + j], sort_keys=True)
            if keys(fresh[fi + j]):
                nontriv.add(g[j]["src"])
        fi += len(g)
        for vi in range(4):
            r = res[gi * 4 + vi]
            if r is None or ("seq" not in r and "threads" not in r):
                continue
            items = r.get("seq") or [x for t in r["threads"] if isinstance(t, list) for x in t]
            for it in items:
                if vi == 3 and g[it["file"]].get("ext"):
                    continue      # the callback type is not Send: thread runs are made without it
                if json.dumps(it["res"], sort_keys=True) != base[it["file"]]:
                    if status(it["res"]) in ("panic", "crash"):
                        continue
                    nhist += 1
                    if nhist <= 3:
                        ctx.violation("C02.history-or-thread-dependent", "output on a reused/shared Linter differs from a fresh one (variant %d)" % vi,
                                      {"file": g[it["file"]], "fresh": json.loads(base[it["file"]]), "reused": it["res"], "variant": ["in order", "reversed", "shuffled", "8 threads"][vi]})
    # (d) the verdict must not depend on how busy the machine is (a time budget) nor on the stack of the calling thread (a headroom guard)
    load_cases = []
    for n9 in (200, 384, 600, 900, 1200, 1800, 2400, 3200, 4000, 5000, 6500, 8000):
        load_cases.append({"src": "new RegExp(%s);\nx = /%s[/;" % (json.dumps("a" * n9 + "("), "ab" * (n9 // 2)), "media": "js", "rules": ["no-invalid-regexp"]})
    for profile in ("release", "debug"):
        idle = lib.run_vh("lint", load_cases, profile=profile, jobs=1, per_case_timeout=60)
        # load: four times as many simultaneous processes as there are cores, each linting all the cases
        exe9 = lib.build_harness(profile)
        import subprocess as _sp
        data9 = "".join(json.dumps(c) + "\n" for c in load_cases)
        procs9 = [_sp.Popen([exe9, "lint"], stdin=_sp.PIPE, stdout=_sp.PIPE, stderr=_sp.DEVNULL, text=True, env=lib.ENV) for _ in range(4 * lib.NCPU)]
        for pr9 in procs9:
            pr9.stdin.write(data9); pr9.stdin.close()
        busy = []
        for pr9 in procs9:
            ls9 = [json.loads(l) for l in pr9.stdout.read().split("\n") if l and not l.startswith("#CASE")]
            pr9.wait()
            busy += (ls9 + [None] * len(load_cases))[:len(load_cases)]
        for i9, c9 in enumerate(load_cases):
            outs9 = {json.dumps(keys(idle[i9]))} | {json.dumps(keys(busy[j])) for j in range(i9, len(busy), len(load_cases)) if status(busy[j]) == "ok"}
            if status(idle[i9]) == "ok" and len(outs9) > 1:
                ctx.violation("C02.depends-on-machine-load", "a long regular expression gets different verdicts when the machine is busy (%s build, pattern of %d characters)" % (profile, len(c9["src"]) // 2),
                              {"case": c9, "outputs": sorted(outs9)[:3]})
                break
    deep_cases = []
    for d9 in (20, 40, 60, 85, 110, 140, 200, 300, 450):
        for (o9, c9) in (("{", "}"), ("[", "]"), ("(", ")"), ("f(", ")"), ("if (a) {", "}")):
            inner9 = "debugger;" if o9 in ("{", "if (a) {") else "a == b"
            deep_cases.append({"src": ("x = " if o9 in ("[", "(", "f(") else "") + o9 * d9 + inner9 + c9 * d9 + (";" if o9 in ("[", "(", "f(") else ""), "media": "ts", "rules": "all"})
    big9 = lib.run_vh("lint", deep_cases, per_case_timeout=20)
    for mb9 in (0.5, 1, 2):
        small9 = lib.run_vh("lint", deep_cases, per_case_timeout=20, stack_mb=mb9)
        for c9, x9, y9 in zip(deep_cases, big9, small9):
            if status(x9) == "ok" and status(y9) == "ok" and keys(x9) != keys(y9):
                ctx.violation("C02.depends-on-stack-of-the-calling-thread", "the same file gives different diagnostics on a thread with a %d MiB stack" % mb9, {"case": c9, "big_stack": keys(x9), "small_stack": keys(y9)})
                break
    # within one file: the verdict for a regular expression does not depend on the expressions before it
    rxfiles = [f for f in files if f.get("rx")][:400]
    line_cases, line_meta = [], []
    for fi, f in enumerate(rxfiles):
        for li, ln in enumerate(f["src"].split("\n")):
            line_cases.append({"src": ln, "media": "js", "rules": ["no-invalid-regexp"]})
            line_meta.append((fi, li))
    whole = lib.run_vh("lint", [dict(f, rules=["no-invalid-regexp"]) for f in rxfiles], per_case_timeout=20)
    alone = lib.run_vh("lint", line_cases, per_case_timeout=20)
    alone_rep = collections.defaultdict(set)
    for (fi, li), r0 in zip(line_meta, alone):
        if status(r0) == "ok" and r0["ok"]:
            alone_rep[fi].add(li)
    nseq = 0
    for fi, (f, r0) in enumerate(zip(rxfiles, whole)):
        if status(r0) != "ok":
            continue
        b = f["src"].encode("utf8")
        got = {b[:d["start"]].count(b"\n") for d in r0["ok"]}
        if got != alone_rep[fi]:
            nseq += 1
            if nseq <= 2:
                ctx.violation("C02.regex-verdict-depends-on-earlier-expressions-in-the-file", "lines reported in the whole file %s, each line alone %s" % (sorted(got), sorted(alone_rep[fi])),
                              {"file": f})
    # the dlint driver (examples/dlint/main.rs is among this property's anchors): same report for every schedule
    import props_dlint
    ndl = props_dlint.dlint_fatal_determinism(ctx, "C02")
    ctx.correspondence("fresh vs reused vs reordered vs 8-thread shared Linter; 3 repetitions in fresh processes", len(cases) * 3 + len(multi) * 40, len(nontriv), [],
                       "implementation differential; non-trivial := file with at least one diagnostic")


# ------------------------------------------------------------------ C03
CHAR_LEVEL_RULES = {"prefer-ascii", "no-irregular-whitespace", "ban-untagged-todo", "ban-ts-comment", "jsx-no-unescaped-entities",
                    "no-control-regex", "no-invalid-triple-slash-reference", "ban-untagged-ignore"}


def wellformed(case, res, check_tokens=True):
    """Returns list of (class, detail)."""
    bad = []
    if "ok" not in res:
        return bad
    src = case["src"]
    b = src.encode("utf8")
    n = len(b)
    bounds = set()
    o = 0
    for ch in src:
        bounds.add(o); o += len(ch.encode("utf8"))
    bounds.add(o)
    tb = set(res.get("bounds") or [])
    ks = []
    for d in res["ok"]:
        code = d["code"]
        external = d["msg"].startswith("ext") and d["msg"][3:].isdigit()   # injected by the harness callback with a random range
        if d["start"] is None:
            ks.append((-1, code))
        elif external:
            ks.append((d["start"], code))
            continue
        else:
            s, e = d["start"], d["end"]
            ks.append((s, code))
            if not (0 <= s <= e <= n):
                bad.append(("range-out-of-text:" + code, "%s [%d,%d) len %d" % (code, s, e, n)))
            elif s not in bounds or e not in bounds:
                bad.append(("range-off-char-boundary:" + code, "%s [%d,%d)" % (code, s, e)))
            elif check_tokens and tb and code not in CHAR_LEVEL_RULES and (s not in tb or e not in tb):
                bad.append(("range-off-token-boundary:" + code, "%s [%d,%d) %r" % (code, s, e, b[s:e][:40])))
        if not d.get("same_text", True):
            bad.append(("foreign-text:" + code, code))
        if not d.get("spec", "").startswith("file:///v/case."):
            bad.append(("foreign-specifier:" + code, d.get("spec")))
        if d.get("display_ok") is False:
            bad.append(("display-panics:" + code, code))
        for fx in d.get("fixes") or []:
            last = -1
            for ch in sorted(fx["changes"], key=lambda c: (c["s"], c["e"])):
                if not (0 <= ch["s"] <= ch["e"] <= n) or ch["s"] not in bounds or ch["e"] not in bounds:
                    bad.append(("fix-range-bad:" + code, "%s fix [%d,%d)" % (code, ch["s"], ch["e"])))
                if ch["s"] < last:
                    bad.append(("fix-changes-overlap:" + code, code))
                last = ch["e"]
    if ks != sorted(ks):
        bad.append(("not-sorted", str(ks[:6])))
    return bad


@register("C03")
def c03(ctx):
    ctx.assumptions.append("ranges of the ~110 rules that come straight from swc spans are checked dynamically by the assertion set, not proved; proved: the pipeline's sort/origin theorems")
    r = PP.pipeline_check(ctx, "C03", {"force": None, "clauses": ["C03"]}, n=4000 if ctx.tier == "quick" else 60000)
    if r is None:
        return
    scs, outs, outs0, builtin = r
    rng = random.Random(ctx.seed + 3)
    cases = []
    for sn in sample_corpus(rng, 2500 if ctx.tier == "quick" else 10 ** 6):
        for m in (MEDIA if ctx.tier == "thorough" else [rng.choice(MEDIA)]):
            cases.append({"src": sn["src"], "media": m, "rules": "all", "bounds": True, "display": True})
    # multi-byte / CRLF / shebang variants
    pre = ["// é漢😀\n", "/* ü */ ", "#!/usr/bin/env deno\n", "\n\n", "  "]
    for sn in sample_corpus(rng, 800 if ctx.tier == "quick" else 4000):
        p = rng.choice(pre)
        src = p + sn["src"]
        if rng.random() < 0.3:
            src = src.replace("\n", "\r\n")
        cases.append({"src": src, "media": rng.choice(MEDIA), "rules": "all", "bounds": True, "display": True})
    for s in scs[:1500]:
        cases.append(dict(pipe.impl_case(s), bounds=True, display=True))
    # long single-line diagnostics over multi-byte text, every length / byte alignment (rendering must not cut inside a character)
    for L in range(20, 340, 3):
        for ch in ("é", "漢", "😀"):
            pad = "a" * (L % 7)
            cases.append({"src": '"%s%s" == b;' % (pad, ch * L), "media": "ts", "rules": ["eqeqeq"], "bounds": True, "display": True})
            cases.append({"src": "// TODO %s%s" % (pad, ch * L), "media": "ts", "rules": ["ban-untagged-todo"], "bounds": True, "display": True})
            cases.append({"src": "x = `%s%s`;\nconsole.log(`%s`, x); debugger;" % (pad, ch * L, ch * (L // 2)), "media": "ts", "rules": "all", "bounds": True, "display": True})
    # JSX text that looks like a comment, behind every kind of leading white space / character reference
    for lead in ["", " ", "  ", "\n  ", "\t", "&#32;", "&nbsp;", "\u3000", "&#32;\u3000\u3000", " &#x20; ", "\u00a0\u00a0", "é ", "&amp;"]:
        for body in ["// x", "/* x */", "// é漢", "/* 😀 */ tail", "//"]:
            for wrap in ("<div>%s</div>;", "<>%s</>;", "<A b={1}>\n%s\n</A>;", "<p>a{b}%s</p>;"):
                cases.append({"src": wrap % (lead + body), "media": "tsx", "rules": "all", "bounds": True, "display": True})
    res = lib.run_vh("lint", cases, per_case_timeout=5)
    seen = collections.Counter()
    # comments that repeat the text of the neighbouring tokens, inserted BETWEEN tokens of the test programs (a rule that finds its place by
    # searching the text instead of looking at tokens lands inside the comment); plus hand-written import-attribute forms
    gap_cases = []
    for c, x in list(zip(cases, res))[:2500]:
        if x is None or "ok" not in x or not x.get("bounds") or c["media"] not in ("ts", "tsx", "js", "jsx", "mts", "mjs"):
            continue
        bsrc = c["src"].encode("utf8")
        tb = sorted(set(x["bounds"]))
        if len(tb) < 4 or len(bsrc) > 4000:
            continue
        for _ in range(2):
            i = rng.randrange(1, len(tb) - 1)
            pos = tb[i]
            prev_t = bsrc[tb[i - 1]:pos].decode("utf8", "replace").strip()
            next_t = bsrc[pos:tb[i + 1]].decode("utf8", "replace").strip()
            words = " ".join(w for w in (next_t, prev_t) if w and "*/" not in w and "\n" not in w and len(w) < 40)
            if not words:
                continue
            gap_cases.append(dict(c, src=(bsrc[:pos] + (" /* %s */ " % words).encode("utf8") + bsrc[pos:]).decode("utf8", "replace"), display=True, bounds=True))
    for imp in ('import d from "./d.json" /* assert json */ assert { type: "json" };', 'import d from "./d.json" /* was: assert */ with { type: "json" };',
                'export * from "./d.json" /* assert */ assert { type: "json" };', 'import d from "./assert.json" assert { type: "json" };',
                'import { assert } from "./assert.ts"; import e from "./e.json" assert /* assert */ { type: "json" };',
                'const m = await import("./d.json", /* assert */ { assert: { type: "json" } });'):
        for m in ("ts", "js"):
            gap_cases.append({"src": imp, "media": m, "rules": "all", "bounds": True, "display": True})
    gres = lib.run_vh("lint", gap_cases, per_case_timeout=5)
    for c, x in zip(gap_cases, gres):
        if x is None or "ok" not in x:
            continue
        for cls, detail in wellformed(c, x):
            seen[cls] += 1
            if seen[cls] <= 2:
                ctx.violation("C03." + cls, detail, {"case": c, "result": x})
    ctx.extra["gap_comment_cases"] = len(gap_cases)
    # leading byte order marks: the file is linted like the file without them (release and debug builds)
    bom_base = [c for c in cases[:400] if not c["src"].startswith("#!")]
    for profile in ("release", "debug"):
        b0 = lib.run_vh("lint", [dict(c, bounds=False, display=False) for c in bom_base], profile=profile, per_case_timeout=10)
        for nb in (1, 2, 3):
            b1 = lib.run_vh("lint", [dict(c, src="\ufeff" * nb + c["src"], bounds=False, display=False) for c in bom_base], profile=profile, per_case_timeout=10)
            nbad = 0
            for c, x0, x1 in zip(bom_base, b0, b1):
                if status(x0) == "ok" and status(x1) != "ok":
                    nbad += 1
                    if nbad <= 1:
                        ctx.violation("C03.bom-input-not-linted:%s" % profile, "%d leading BOM(s): %s instead of diagnostics (%s build)" % (nb, status(x1), profile),
                                      {"case": dict(c, src="\ufeff" * nb + c["src"]), "result": x1})
    nontriv = set()
    ndiags = 0
    for c, x in zip(cases, res):
        if x is None or "ok" not in x:
            continue
        if x["ok"]:
            nontriv.add(c["src"]); ndiags += len(x["ok"])
        for cls, detail in wellformed(c, x):
            seen[cls] += 1
            if seen[cls] <= 2:
                ctx.violation("C03." + cls, detail, {"case": c, "result": x})
    ctx.extra["diagnostics_checked"] = ndiags
    import props_c13
    props_c13.text_rules_c03(ctx)
    ctx.correspondence("well-formedness assertion set over every diagnostic (implementation)", len(cases), len(nontriv), [],
                       "repo test programs x media types (+ multi-byte/CRLF/shebang prefixes) + pipeline scenarios, all rules; asserted: 0<=start<=end<=len, char boundaries, token/comment boundaries (except character-level rules %s), specifier/text identity, sortedness, fix ranges in-bounds/on boundaries/non-overlapping, display() does not panic; non-trivial := at least one diagnostic" % sorted(CHAR_LEVEL_RULES))


# ------------------------------------------------------------------ C04
ACC = ("ban-unused-ignore", "ban-unknown-rule-code")


@register("C04")
def c04(ctx):
    ctx.assumptions.append("rule bodies are not modelled: 'each rule emits only its own code and reads no other rule's output' is a generated table obligation + the differential run")
    sys.path.insert(0, os.path.join(lib.ROOT, "translate"))
    import gen_code_table
    rows = gen_code_table.generate()
    badrows = {f: r for f, r in rows.items() if r["bad"] or not r["code_fn_ok"] or r["reads_diagnostics"] or not r["code"]}
    ctx.obligation("translator: coq/Gen/CodeTable.v regenerated from src/rules/*.rs (%d rule files; unclassifiable/foreign-code sites: %s)" % (len(rows), json.dumps(badrows)[:600]), True)
    r = PP.pipeline_check(ctx, "C04", {"force": None, "clauses": ["C03", "C06"]}, n=4000 if ctx.tier == "quick" else 40000)
    if r is None:
        return
    scs, outs, outs0, builtin = r
    # codes of pipeline outputs must be enabled or externally declared
    nbad = 0
    for s, O in zip(scs, outs):
        if O is None:
            continue
        allowed = set(s["rules"]) | set(s["decl"] or [])
        raw_ext = set(d["code"] for d in (s["ext_diags"] or []))
        for d in O:
            if d[0] not in allowed and d[0] not in raw_ext:
                cls = "C04.accounting-code-while-rule-not-enabled:" + d[0] if d[0] in ACC and pipespec.is_acc(d) else "C04.foreign-code:" + d[0]
                nbad += 1
                ctx.violation(cls, "diagnostic with code %s although enabled=%s" % (d[0], sorted(allowed)), {"case": pipe.impl_case(s), "output": O})
                break
    rng = random.Random(ctx.seed + 4)
    reg = lib.vh_registry()
    codes = [x["code"] for x in reg["rules"]]
    ordinary = [c for c in codes if c not in ACC]
    # the public selection function (include list) must hand the linter exactly the named rules: codes that are substrings of each
    # other are where a sloppy comparison shows; the codes of the output must be a subset of the request
    related = sorted({c for c in codes for o in codes if o != c and (c in o or o in c)})
    by_rule = collections.defaultdict(list)
    for sn in get_corpus():
        by_rule[sn["rule_file"].replace("_", "-")].append(sn["src"])
    sel_cases, sel_meta = [], []
    for c in related:
        family = [o for o in related if o != c and (c in o or o in c)]
        srcs = []
        for o in [c] + family:
            srcs += by_rule.get(o, [])[:6]
        for src in srcs[:24]:
            for request in ([c], [c, "no-debugger"]):
                sel_cases.append({"src": src, "media": "tsx", "rules": {"include": request, "tags": []}})
                sel_cases.append({"src": src, "media": "tsx", "rules": request})
                sel_meta.append((c, request))
    sel_res = lib.run_vh("lint", sel_cases, per_case_timeout=5)
    n_sel_bad = 0
    for i, (c, request) in enumerate(sel_meta):
        a, b = sel_res[2 * i], sel_res[2 * i + 1]
        if status(a) != "ok" or status(b) != "ok":
            continue
        extra = sorted({d["code"] for d in a["ok"]} - set(request) - {"ban-unused-ignore"})
        if extra or keys(a) != keys(b):
            n_sel_bad += 1
            if n_sel_bad <= 3:
                ctx.violation("C04.foreign-code-through-selection:%s" % (extra[0] if extra else c), "include=%s gives codes %s; the same rules handed over directly give %s"
                              % (request, sorted({d["code"] for d in a["ok"]}), sorted({d["code"] for d in b["ok"]})), {"case": sel_cases[2 * i], "direct": sel_cases[2 * i + 1]})
    ctx.correspondence("selection path: filtered_rules(include = codes that are substrings of other codes) vs the same rules handed over directly", len(sel_cases), len(sel_cases), [],
                       "%d related codes, test programs of the whole family; the output's codes must be within the request" % len(related))
    snippets = sample_corpus(rng, 1200 if ctx.tier == "quick" else 10 ** 6)
    cases, meta = [], []
    for sn in snippets:
        m = rng.choice(MEDIA)
        base = {"src": sn["src"], "media": m}
        own = sn["rule_file"].replace("_", "-")
        singles = [c for c in [own] if c in ordinary] + rng.sample(ordinary, 3 if ctx.tier == "quick" else 8)
        k = len(cases)
        cases.append(dict(base, rules="all"))
        sup = rng.sample(codes, rng.randint(5, 60))
        for c in singles:
            if c not in sup:
                sup.append(c)
        rng.shuffle(sup)
        cases.append(dict(base, rules=sup))
        cases.append(dict(base, rules=sup[::-1]))
        for c in singles:
            cases.append(dict(base, rules=[c]))
        meta.append((k, singles, sup))
    res = lib.run_vh("lint", cases, per_case_timeout=5)
    nontriv, nproj = set(), 0

    def proj(r, c):
        return [k for k in (keys(r) or []) if k[0] == c]
    for (k, singles, sup) in meta:
        rall, rsup, rsupr = res[k], res[k + 1], res[k + 2]
        if any(status(x) != "ok" for x in (rall, rsup, rsupr)):
            continue
        if keys(rsup) != keys(rsupr):
            ctx.violation("C04.rule-order-matters", "same rule set in two supplied orders gives different output", {"case": cases[k + 1], "reversed": cases[k + 2]})
        enabled_sup = set(sup)
        for d in rsup["ok"]:
            if d["code"] not in enabled_sup and not (d["code"] == "ban-unused-ignore"):
                ctx.violation("C04.foreign-code:" + d["code"], "code not enabled", {"case": cases[k + 1]})
        for j, c in enumerate(singles):
            rs = res[k + 3 + j]
            if status(rs) != "ok":
                continue
            for d in rs["ok"]:
                if d["code"] != c and d["code"] != "ban-unused-ignore":
                    ctx.violation("C04.foreign-code:%s-from-%s" % (d["code"], c), "rule %s alone produced code %s" % (c, d["code"]), {"case": cases[k + 3 + j]})
            if proj(rs, c):
                nontriv.add((cases[k]["src"], c))
            for other, name in ((rall, "all"), (rsup, "superset")):
                if proj(rs, c) != proj(other, c):
                    nproj += 1
                    if nproj <= 3:
                        ctx.violation("C04.projection-differs:" + c, "rule %s alone vs with %s" % (c, name), {"alone": cases[k + 3 + j], "with": cases[k] if name == "all" else cases[k + 1]})
    # every test program of every rule: the rule alone vs small sets (with the accounting rules, with one other rule) vs all rules
    small, smeta = [], []
    for sn in get_corpus():
        own = sn["rule_file"].replace("_", "-")
        if own not in ordinary:
            continue
        base = {"src": sn["src"], "media": "tsx" if sn["rule_file"].startswith(("jsx", "react")) else "ts"}
        k = len(small)
        other = rng.choice(ordinary)
        sets = [[own], [own, "ban-unused-ignore"], [own, "ban-unknown-rule-code"], ["ban-unused-ignore", "ban-unknown-rule-code", own, other], "all"]
        for rs in sets:
            small.append(dict(base, rules=rs))
        smeta.append((k, own, len(sets)))
    # noisy and deep files: a rule's output must not depend on how much the other rules report or how deep they recursed
    noisy_src = "debugger;\n" * 1100 + "var legacy = 1;\nif (legacy == 2) {}\nconsole.log(legacy);\n"
    deep_src = "x = " + "(" * 250 + "a == b" + ")" * 250 + ";\nvar w = 1;\n"
    wide_src = "var " + ", ".join("v%d = %d" % (i, i) for i in range(1500)) + ";\nif (v1 == 2) { debugger; }\n"
    deep_sweep = ["x = " + "(" * d + "a == b" + ")" * d + ";\n" for d in range(236, 266, 2)]
    for psrc in [noisy_src, deep_src, wide_src] + deep_sweep:
        for own in ("no-var", "eqeqeq", "no-empty", "no-console", "no-debugger"):
            base = {"src": psrc, "media": "ts"}
            k = len(small)
            sets = [[own], [own, "ban-unused-ignore"], ["no-debugger", "no-empty", own], ["ban-types", "default-param-last", "camelcase", own], "all"]
            for rs in sets:
                small.append(dict(base, rules=rs))
            smeta.append((k, own, len(sets)))
    sres = lib.run_vh("lint", small, per_case_timeout=20)
    for (k, own, ns) in smeta:
        if status(sres[k]) != "ok":
            continue
        p0 = proj(sres[k], own)
        if p0:
            nontriv.add((small[k]["src"], own))
        for j in range(1, ns):
            if status(sres[k + j]) != "ok":
                continue
            if proj(sres[k + j], own) != p0:
                nproj += 1
                if nproj <= 4:
                    ctx.violation("C04.projection-differs:" + own, "rule %s alone vs with %s" % (own, small[k + j]["rules"]), {"alone": small[k], "with": small[k + j]})
    ctx.correspondence("per-rule projection: {r} vs random superset vs all rules, two supply orders; every repo test program: {r} vs {r}+accounting rules vs {r}+other vs all (implementation differential)", len(cases) + len(small), len(nontriv), [],
                       "repo test programs; non-trivial := (program, rule) with at least one diagnostic of that rule")


# ------------------------------------------------------------------ C09
PREFIXES = [("\n", 1), ("\n\n\n", 3), ("   ", 0), ("// ascii comment\n", 1), ("// é漢😀 comment\n", 1), ("/* block */ ", 0), ("/* é\n */\n", 2)]


def shift_keys(res, k):
    out = []
    for d in res["ok"]:
        fixes = json.loads(json.dumps(d.get("fixes") or []))
        for fx in fixes:
            for ch in fx["changes"]:
                ch["s"] += k; ch["e"] += k
        out.append((d["code"], None if d["start"] is None else d["start"] + k, None if d["end"] is None else d["end"] + k,
                    d["msg"], d.get("hint"), json.dumps(fixes, sort_keys=True)))
    return out


def crlf_outside_tokens(src):
    """LF -> CRLF only if the program has no template/string/regex/JSX text containing a newline: approximated by
    refusing sources with backticks, JSX-looking text or line continuations."""
    if "`" in src or "\\\n" in src or "<" in src or "\r" in src:
        return None
    return src.replace("\n", "\r\n")


@register("C09")
def c09(ctx):
    ctx.assumptions.append("whole-linter equivariance rests on swc spans: proved for the pipeline model and the text-scanning models, explored for the rules")
    r = PP.pipeline_check(ctx, "C09", {"force": None, "clauses": ["C03"]}, n=4000 if ctx.tier == "quick" else 40000)
    if r is None:
        return
    scs, outs, outs0, builtin = r
    rng = random.Random(ctx.seed + 9)
    cases, meta = [], []
    progs = [{"src": s["src"], "media": rng.choice(MEDIA), "rules": "all"} for s in sample_corpus(rng, 1500 if ctx.tier == "quick" else 10 ** 6)]
    # rules that compute positions by hand: every test program of theirs, every prefix
    POSITION_RULES = ("prefer_ascii", "no_irregular_whitespace", "ban_untagged_todo", "ban_ts_comment", "jsx_curly_braces", "ban_untagged_ignore",
                      "no_invalid_triple_slash_reference", "jsx_no_unescaped_entities", "jsx_props_no_spread_multi", "jsx_boolean_value", "no_control_regex",
                      "no_process_global", "no_node_globals", "no_window", "no_window_prefix", "verbatim_module_syntax", "triple_slash_reference", "no_external_imports")
    hand = [{"src": s["src"], "media": "tsx" if s["rule_file"].startswith("jsx") else rng.choice(["ts", "js"]), "rules": [s["rule_file"].replace("_", "-")], "allprefixes": True}
            for s in get_corpus() if s["rule_file"] in POSITION_RULES]
    progs += hand
    # constructs that START with a hand-positioned character (the prefix then shares the inter-token gap with it)
    IRR = ["\u000b", "\u000c", "\u00a0", "\u0085", "\u1680", "\u2003", "\u202f", "\u205f", "\u3000", "\u2028", "\u2029"]
    for c in IRR:
        for body in ("var a = 1;", "x;\n" + c + "y;", "/* " + c + " */ x;", "// " + c + "\nx;"):
            progs.append({"src": c + body, "media": rng.choice(["ts", "js"]), "rules": ["no-irregular-whitespace"], "allprefixes": True})
    for c in ["é", "漢", "😀", "“", "—"]:
        for body in ("x;", "/* " + c + " */ y;", "const s = '" + c + "';", "// " + c + "\nz;"):
            progs.append({"src": c + body if body == "x;" else body + " " + c, "media": "ts", "rules": ["prefer-ascii"], "allprefixes": True, "force_big": c in ("é", "😀")})
    progs += [pipe.impl_case(s) for s in scs[:1000] if not s["src"].startswith("#!")]
    for body in ("// deno-lint-ignore-file no-debugger\ndebugger;\nif (a) {}\n", "// deno-lint-ignore-file\ndebugger;\n", "// deno-lint-ignore no-debugger\ndebugger;\ndebugger;\n",
                 "x;\u000cy; é;\n", "\u000cvar a = 1;", "\u000bfoo();", "a;\u000cb;"):
        progs.append({"src": body, "media": "ts", "rules": ["no-debugger", "no-empty", "no-irregular-whitespace", "prefer-ascii", "ban-unused-ignore"], "allprefixes": True, "force_big": True})
    for p in progs:
        if p["src"].startswith("#!"):
            continue
        k = len(cases)
        cases.append(p)
        variants = []
        allp = p.pop("allprefixes", False)
        for (pre, nl) in (PREFIXES if (ctx.tier == "thorough" or allp) else rng.sample(PREFIXES, 2)):
            q = dict(p, src=pre + p["src"])
            if q.get("ext") and q["ext"].get("diags"):
                q["ext"] = json.loads(json.dumps(q["ext"]))
                for d in q["ext"]["diags"]:
                    if d["start"] is not None:
                        d["start"] += len(pre.encode()); d["end"] += len(pre.encode())
            variants.append(("prefix", len(pre.encode("utf8")), len(cases)))
            cases.append(q)
        # very long prefixes whose end lies around 4 KiB / 8 KiB / 64 KiB (block boundaries, header windows, 16-bit offsets)
        fb = p.pop("force_big", False)
        if allp and not p.get("ext") and len(p["src"]) < 200 and (fb or rng.random() < 0.2):
            LS = [4093, 4095, 4096, 4097, 8191, 8193, 65531, 65532, 65533, 65534, 65535, 65536, 65537]
            for L in (LS if fb else rng.sample(LS, 3)):
                for pre in ("\n" * L, "/*" + "x" * (L - 5) + "*/\n", " " * L):
                    variants.append(("prefix", L, len(cases)))
                    cases.append(dict(p, src=pre + p["src"]))
        if not p.get("ext"):
            variants.append(("bom", 0, len(cases)))
            cases.append(dict(p, src="﻿" + p["src"]))
            c2 = crlf_outside_tokens(p["src"])
            if c2 is not None and c2 != p["src"]:
                variants.append(("crlf", None, len(cases)))
                cases.append(dict(p, src=c2))
        meta.append((k, variants))
    res = lib.run_vh("lint", cases, per_case_timeout=5)
    nontriv, nbad = set(), collections.Counter()
    for (k, variants) in meta:
        base = res[k]
        if status(base) != "ok":
            continue
        if base["ok"]:
            nontriv.add(cases[k]["src"])
        for (kind, shift, j) in variants:
            v = res[j]
            if status(v) != "ok":
                if status(v) in ("panic", "crash"):
                    continue
                nbad["C09.%s-changes-parse" % kind] += 1
                if nbad["C09.%s-changes-parse" % kind] <= 2:
                    ctx.violation("C09.%s-changes-parse" % kind, "variant no longer parses: %s" % status(v), {"base": cases[k], "variant": cases[j], "result": v})
                continue
            if kind == "crlf":
                # positions: map through the number of LFs before each offset
                src = cases[k]["src"].encode("utf8")

                def mp(o):
                    return None if o is None else o + src[:o].count(b"\n")
                exp = []
                for d in base["ok"]:
                    fixes = json.loads(json.dumps(d.get("fixes") or []))
                    for fx in fixes:
                        for ch in fx["changes"]:
                            ch["s"], ch["e"] = mp(ch["s"]), mp(ch["e"])
                            ch["t"] = ch["t"]
                    exp.append((d["code"], mp(d["start"]), mp(d["end"]), d["msg"], d.get("hint"), json.dumps(fixes, sort_keys=True)))
                got = shift_keys(v, 0)
                # messages/fix texts may quote source text containing line breaks: compare modulo CR
                norm = lambda L: [tuple(x.replace("\r", "") if isinstance(x, str) else x for x in t) for t in L]
                ok = norm(exp) == norm(got)
            else:
                exp = shift_keys(base, shift)
                got = shift_keys(v, 0)
                # diagnostics located inside the prefix are excluded by the property
                got = [g for g in got if g[1] is None or g[1] >= shift]
                ok = exp == got
            if not ok:
                codes = sorted(set(x[0] for x in set(exp) ^ set(got)))
                cls = "C09.%s-not-equivariant:%s" % (kind, ",".join(codes[:3]))
                nbad[cls] += 1
                if nbad[cls] <= 2:
                    ctx.violation(cls, "diagnostics changed other than by translation", {"base": cases[k], "variant": cases[j], "expected": exp[:10], "got": got[:10]})
    import props_c13
    props_c13.text_rules_c09(ctx)
    ctx.correspondence("P vs prefix+P / BOM+P / CRLF(P) (implementation differential, all rules)", len(cases), len(nontriv), [],
                       "repo test programs + pipeline scenarios; prefixes %s; non-trivial := program with at least one diagnostic" % [p for p, _ in PREFIXES])


# ------------------------------------------------------------------ C01
ALL_MEDIA = ["js", "mjs", "cjs", "jsx", "ts", "mts", "cts", "dts", "tsx"]
TOKENS = ["(", ")", "{", "}", "[", "]", ";", ",", "=>", "=", "<", ">", "/", "`", "'", '"', "\\", "${", "?.", "...", "/*", "//", "\n", " ",
          "class ", "function ", "async ", "await ", "enum ", "get ", "new RegExp(", "/(?<a", "[,]", "+ ''", "<a ", "/>", "</", "😀", "é", " ", "﻿",
          "#!", "if (", "while (", "switch (", "case ", "label: ", "break ", "continue ", "typeof ", "0", "1n", "09", "\\u{", "\\k<", "a{99999999999999999999}"]


def mutate(rng, s):
    if not s:
        return rng.choice(TOKENS)
    k = rng.random()
    chars = list(s)
    if k < 0.2:
        return s[:rng.randrange(len(chars) + 1)]
    if k < 0.35:
        return s[rng.randrange(len(chars)):]
    if k < 0.6:
        i = rng.randrange(len(chars) + 1)
        return "".join(chars[:i]) + rng.choice(TOKENS) + "".join(chars[i:])
    if k < 0.75:
        i = rng.randrange(len(chars)); j = min(len(chars), i + rng.randint(1, 8))
        return "".join(chars[:i] + chars[j:])
    if k < 0.85:
        i = rng.randrange(len(chars))
        chars[i] = rng.choice(TOKENS)
        return "".join(chars)
    if k < 0.9:
        return "﻿" + s
    if k < 0.95:
        return s.replace("\n", "\r\n")
    i = rng.randrange(len(chars)); j = min(len(chars), i + rng.randint(1, 20))
    return "".join(chars[:j] + chars[i:j] + chars[j:])


def classify_crash(res, case):
    """Specific class of a panic/crash so that known findings in dependencies can be told apart."""
    if "panic" in res:
        return "panic@" + str(res.get("at"))
    return "crash:" + str(res.get("crash"))


def parser_input_class(case):
    """A syntactic class for hard parser crashes (no panic site available)."""
    import re
    if case["media"] in ("ts", "tsx", "mts", "cts", "dts") and re.search(r"\benum\s+[A-Za-z_$][\w$]*\s*\{", case["src"]):
        return "ts-enum"
    return "other-input"


@register("C01")
def c01(ctx):
    ctx.assumptions.append("totality is PROVED only for the modelled cores (directive parser, pipeline arithmetic, regex validator, CF analyzer unwraps, traverse flag machine); for the ~110 rule bodies and swc it is an exploration (search for a failing input), stated as such")
    ctx.proof_stage("C01", [])
    ctx.proof_stage("C01_regex", [])
    ctx.proof_stage("C01_cf", ["CF/Coverage.vo"])
    rng = random.Random(ctx.seed + 1)
    reg = lib.vh_registry()
    codes = [r["code"] for r in reg["rules"]]
    corpus = get_corpus()
    cases = []
    quick = ctx.tier == "quick"
    # (1) every repo test program, all rules, random media type
    for sn in (sample_corpus(rng, 2500) if quick else corpus):
        for m in ([rng.choice(ALL_MEDIA)] if quick else ALL_MEDIA[:]):
            cases.append({"src": sn["src"], "media": m, "rules": "all"})
    # (2) rule subsets: empty, single, recommended, random
    for sn in sample_corpus(rng, 600 if quick else 3000):
        k = rng.random()
        rules = [] if k < 0.1 else "recommended" if k < 0.3 else [rng.choice(codes)] if k < 0.6 else rng.sample(codes, rng.randint(2, 40))
        cases.append({"src": sn["src"], "media": rng.choice(ALL_MEDIA), "rules": rules})
    # (3) malformed stream
    for _ in range(6000 if quick else 150000):
        s = rng.choice(corpus)["src"]
        for _ in range(rng.choice([1, 1, 2, 3])):
            s = mutate(rng, s)
        cases.append({"src": s, "media": rng.choice(ALL_MEDIA), "rules": "all" if rng.random() < 0.8 else "recommended"})
    # (5) directive-bearing files from the pipeline generator (all white-space kinds, custom words, external results)
    for _ in range(2500 if quick else 40000):
        sc = pipe.gen_scenario(rng)
        cases.append(pipe.impl_case(sc))
    # (6) every construct of the repo's tests in dead code / after an endless loop / in a do-while test position
    wrappers = ["function __w() { return 1; %s\n}", "function __w() { throw 1; %s\n}", "for (;;) {}\n%s", "function __w() { while (true) {} %s\n}",
                "switch (__d) { case 0: break; %s\n}", "function __w() { try { return 1; } finally { } %s\n}", "if (false) { %s\n}",
                "class __C { get g() { return 1; %s\n} }", "label: { break label; %s\n}"]
    for sn in (sample_corpus(rng, 1500) if quick else corpus):
        w = rng.choice(wrappers)
        cases.append({"src": w % sn["src"], "media": rng.choice(["ts", "tsx", "js"]), "rules": "all"})
    # (9) every (construct, twin) of the C08 catalogue in every one-hole context of the C08 catalogue (loop heads, catch parameters,
    #     assignment patterns, parameter defaults of every function kind, decorators, ...), all rules: panics of analyses that skip a position
    import props_c08 as P8
    for p8 in P8.PAIRS:
        chains8 = [[k8] for k8, c8 in P8.CTX.items() if not k8.startswith("@") and c8[1] == p8[1]]
        if p8[1] == "S":      # a statement construct reaches the expression positions through a function-like body
            chains8 += [[k8, inner8] for k8, c8 in P8.CTX.items() if not k8.startswith("@") and c8[1] == "E"
                        for inner8 in ("arrow-block-body", "object-getter-body")]
        for ch8 in chains8:
            if not P8.chain_well_typed(ch8, p8[1]):
                continue
            src8, _, jsx8 = P8.assemble(ch8, P8.filler_for(p8[1], p8[2], P8.CTX[ch8[-1]][1]))
            flags8 = " ".join(P8.CTX[k][6] for k in ch8).split()
            if p8[1] == "S" and ("top" in flags8):
                continue
            m8 = P8.media_for(p8, jsx8 or "tsx" in flags8)
            if "ts" in flags8 and m8 in ("js", "jsx"):
                continue
            cases.append({"src": src8, "media": m8, "rules": "all"})
    # (10) byte order marks (one, several, in the middle) and the declaration forms that have NO body (overload signatures, ambient and abstract
    #      members, interfaces): every function-like form, generator / async / accessor variants; always part of the debug run too
    must_debug = []
    for nb in (1, 2, 3, 5):
        for body in ("debugger;", "", "// deno-lint-ignore-file\ndebugger;", "#!/usr/bin/env deno\nx;", "let a = 1;\r\n\ufeffb;"):
            must_debug.append({"src": "\ufeff" * nb + body, "media": rng.choice(ALL_MEDIA), "rules": "all"})
    SIG = ["function%s f(a: number): %s;\nfunction%s f(a: any): any { %s }", "declare function%s g(a: number): %s;", "export declare function%s g(a: number): %s;",
           "abstract class AC { abstract %sm(a: number): %s; }", "class OC { %sm(a: number): %s; %sm(a: any): any { %s } }", "declare class DC { %sm(a: number): %s; }",
           "interface I { %sm(a: number): %s; }", "declare namespace NS { function%s h(): %s; }", "declare module 'dm' { export function%s h(): %s; }",
           "class PC { private %sm(): %s; private %sm(a?: any): any { %s } }", "class SC { static %sm(): %s; static %sm(a?: any): any { %s } }",
           "export default function%s (a: number): %s;\nexport default function%s (a: any): any { %s }",
           "declare global { function%s gg(): %s; }\nexport {};", "abstract class AG { abstract get g(): number; abstract set s(v: number); abstract accessor z: number; }",
           "class CO { constructor(a: number); constructor(a: any) {} }", "declare class DK { constructor(a: number); get g(): number; set s(v: number); static { } }",
           "function outer() { function%s inner(): %s;\nfunction%s inner(): any { %s } }", "function* og() { yield 1; function%s inner(): %s;\nfunction%s inner(): any { %s } }"]
    for tpl in SIG:
        for star, ret, body in (("", "void", "g();"), ("*", "Generator<number>", "yield 1;"), ("*", "Generator<number>", "g();")):
            n = tpl.count("%s")
            for method_like in (False, True):
                st = star if (("function%s" in tpl) != method_like) else star
                if n == 0:
                    src = tpl
                elif n == 2:
                    src = tpl % (st, ret)
                elif n == 4:
                    src = tpl % (st, ret, st, body)
                else:
                    continue
                for pre in ("", "async " if "function%s" not in tpl and star == "" else ""):
                    for m in ("ts", "tsx", "mts", "dts"):
                        must_debug.append({"src": src, "media": m, "rules": "all"})
                break
    # (11) pragma-like tags in the comments at the top of a file, with valid, unknown and malformed values, every media type
    PRAGMAS = ["@jsx", "@jsxFrag", "@jsxRuntime", "@jsxImportSource", "@ts-nocheck", "@ts-check", "@deno-types", "@jsxImportSourceTypes", "@refresh", "@license", "@flow"]
    PVALS = ["h", "React.createElement", "a..b", "h.", ".h", "1", "", "foo", "classic", "automatic", "(", "a b", "é", "this.h", "import.meta.x", "null", "a?.b", "h()", "'x'", "preact",
             "\\", "a.b.c.d.e", "x" * 300, "😀", "@jsx", "*/", "<div>"]
    for pg in PRAGMAS:
        for pv in PVALS:
            if "*/" in pv:
                heads = ["// %s %s\n" % (pg, pv)]
            else:
                heads = ["/** %s %s */\n" % (pg, pv), "/* %s %s */" % (pg, pv), "// %s %s\n" % (pg, pv), "/**\n * %s %s\n * @jsxRuntime %s\n */\n" % (pg, pv, pv),
                         "#!/usr/bin/env deno\n/** %s %s */\n" % (pg, pv), "/** %s %s */\n@dec export class A {}\n" % (pg, pv)]
            for hd in heads:
                for body, m in (("const a = <div x={1}>t</div>; export default <></>;", "tsx"), ("const a = <div/>;", "jsx"), ("let a = 1; a;", "ts"), ("let a = 1; a;", "js"), ("", "dts")):
                    if "@dec" in hd and m in ("js", "jsx", "dts"):
                        continue
                    must_debug.append({"src": hd + body, "media": m, "rules": "all", "jsx": rng.choice([None, "h", "React.createElement"])})
    # (12) identifier spellings: every combination of short segments (lower / upper / digit / single and double underscores / $ / non-ASCII) in
    #      declaration and reference positions (rules that rewrite or classify the NAME: camelcase, no-unused-vars hints, prefer-ascii, ...)
    import itertools as _it
    SEG = ["a", "bar", "B", "X", "1", "42", "_", "__", "$", "é", "fooBar", "ID"]
    names12 = set()
    for k in (1, 2, 3, 4):
        combos = list(_it.product(SEG, repeat=k))
        for combo in (combos if k <= 2 else rng.sample(combos, min(len(combos), 700 if quick else 6000))):
            nm = "".join(combo)
            if not nm[0].isdigit():
                names12.add(nm)
    for nm in sorted(names12):
        tpl = rng.choice(["const %s = 1; export function f1(%s_p) { return %s_p; }", "function %s() {} %s();", "let { %s } = o, { k: %s_2 } = o;", "class %s { %s = 1; }",
                          "import { %s } from 'm'; export { %s as z1 };", "x = { %s: 1 }; x.%s;", "type %s = number; let v: %s;", "%s: for (;;) { break %s; }"])
        must_debug.append({"src": tpl.replace("%s", nm), "media": "ts", "rules": "all"})
    # (13) literal shapes in key / operand / case positions (rules that compare or print literals)
    LITS = ["1e21", "1e-7", "1e999", "0x10", "1_000", "0b11", "0o17", "017", ".5", "5.", "1n", "-0", "0", "NaN", "1.0", "1e3", "0.1e-6", "9007199254740993", "'a'", "\"a\"", "`a`", "'\\u0061'",
            "null", "true", "undefined", "/a/", "[]", "{}", "1 + 1", "''", "'__proto__'", "'constructor'", "0n", "1e21n" if False else "123456789012345678901234567890n"]
    for lt in LITS:
        for tpl in ("a[%s] = a[%s];", "x = { %s: 1, %s: 2 };", "class K { %s() {} %s() {} }", "switch (x) { case %s: break; case %s: break; }", "x = %s === %s;", "x = %s == %s;",
                    "if (x === %s) {} else if (x === %s) {}", "x = { [%s]: 1, [%s]: 2 };", "this.l[%s] = this.l[%s];", "x = typeof %s === %s;", "new RegExp(%s, %s);", "x = -%s; y = !%s; z = !!%s;"):
            if tpl.startswith(("x = { %s:", "class K")) and not (lt[0].isdigit() or lt[0] in "'\".") :
                continue
            must_debug.append({"src": tpl.replace("%s", lt), "media": rng.choice(["ts", "js"]), "rules": "all"})
    # (14) the external-linter entry point hands in diagnostics that point into ANOTHER, longer text (the document a script was cut out of),
    #      with and without directives naming their code
    for body in ("debugger;\n", "// deno-lint-ignore ext/a\ndebugger;\n", "// deno-lint-ignore-file ext/a\nx;\n", "", "é漢;\n// deno-lint-ignore ext/a no-debugger\ndebugger;"):
        for pad in (1, 7, 64, 500):
            for (st, en) in ((0, 1), (0, len(body.encode())), (len(body.encode()), len(body.encode()))):
                must_debug.append({"src": body, "media": "ts", "rules": "all",
                                   "ext": {"decline": False, "rules": ["ext/a"], "diags": [{"code": "ext/a", "start": st, "end": en, "msg": "m", "foreign": True, "foreign_pad": pad},
                                                                                             {"code": "ext/a", "start": 0, "end": 0, "msg": "n"}]}})
    cases += must_debug
    # (7) regular-expression heavy files (long digit runs, \u{...} with many hex digits, deep groups), all rules
    import regex as RX
    pats = RX.gen_structured(rng, 1500 if quick else 30000) + RX.gen_deep(rng, 100 if quick else 1500)
    pats += ["\\u{" + "1" * k + "}" for k in (5, 9, 16, 17, 18, 40)] + ["a{" + "9" * k + "}" for k in (18, 19, 20, 40)] + ["\\x" + "f" * 20, "\\" + "9" * 25, "(?<" + "a" * 300 + ">)"]
    for i in range(0, len(pats), 4):
        body = []
        for q in pats[i:i + 4]:
            # string forms never break the JS lexer: the same text with u, without u, with other flags, and with unknown flags
            body.append("new RegExp(%s, %s);" % (json.dumps(q), json.dumps(rng.choice(["u", "gu", "u"]))))
            body.append("new RegExp(%s);" % json.dumps(q))
            body.append("new RegExp(%s, %s);" % (json.dumps(q), json.dumps(RX.gen_flags(rng))))
            body.append("new RegExp(%s, flagsVar);" % json.dumps(q))
        cases.append({"src": "\n".join(body), "media": "js", "rules": "all"})
    for q in pats[:: 7]:
        if "\n" not in q and "/" not in q and q and "\r" not in q:
            cases.append({"src": "x = /%s/%s;\ny = /%s/;" % (q, rng.choice(["u", "gu", "", "g"]), q), "media": "js", "rules": "all"})
    # (4) deep nesting / long inputs (time proportional to input size)
    for n in ([200, 1000] if quick else [200, 1000, 4000]):
        cases.append({"src": "(" * n + "1" + ")" * n + ";", "media": "js", "rules": "all"})
        cases.append({"src": "if (a) {" * n + "}" * n, "media": "ts", "rules": "all"})
        cases.append({"src": "x = " + "[" * n + "]" * n + ";", "media": "ts", "rules": "all"})
        cases.append({"src": "a" + " + a" * (n * 5) + ";", "media": "ts", "rules": "all"})
        cases.append({"src": "/" + "(a|b)*" * n + "/;", "media": "js", "rules": "all"})
        cases.append({"src": "// deno-lint-ignore " + "no-debugger," * n + "\ndebugger;" * 50, "media": "ts", "rules": "all"})
    # (8) WIDE but shallow inputs under an ordinary 8 MiB stack (the other runs use a 256 MiB stack so that swc's own recursion on
    #     deeply nested input does not hide everything else): recursion proportional to the WIDTH of the input is a defect
    W = 30000 if quick else 200000
    WB = 200000   # binding lists: wide enough for recursion per binding to exhaust 8 MiB
    wide = [
        "let [" + ", ".join("v%d" % i for i in range(WB)) + "] = data(); v0 = 1;",
        "let {" + ", ".join("k%d" % i for i in range(WB)) + "} = data(); k0 = 1;",
        "function h(" + ", ".join("r%d" % i for i in range(WB // 2)) + ") { r0 = 1; }",
        "var " + ", ".join("a%d = %d" % (i, i) for i in range(W)) + ";",
        "const o = {" + ", ".join("p%d: %d" % (i, i) for i in range(W)) + "};",
        "const arr = [" + ", ".join(str(i) for i in range(W)) + "];",
        "f(" + ", ".join("x%d" % (i % 50) for i in range(W)) + ");",
        "\n".join("s%d();" % (i % 90) for i in range(W)),
        "switch (d) {" + " ".join("case %d: break;" % i for i in range(W // 4)) + "}",
        "class K {" + " ".join("m%d() {}" % i for i in range(W // 4)) + "}",
        "\n".join("import i%d from 'm%d';" % (i, i) for i in range(W // 8)),
        "function g(" + ", ".join("q%d" % i for i in range(W // 8)) + ") {}",
        "x = `" + "${a}b" * (W // 8) + "`;",
        "// deno-lint-ignore " + " ".join("c%d" % i for i in range(W // 4)) + "\ndebugger;",
    ]
    wide_cases = [{"src": w, "media": "ts", "rules": "all"} for w in wide]
    wres = lib.run_vh("lint", wide_cases, per_case_timeout=120.0, stack_mb=8, jobs=len(wide_cases))
    t = time.time()
    res = lib.run_vh("lint", cases, per_case_timeout=3.0)
    trel = time.time() - t
    # debug build (overflow checks, debug assertions) on a sample
    dbg_cases = rng.sample(cases, 2500 if quick else 30000) + must_debug
    t = time.time()
    dres = lib.run_vh("lint", dbg_cases, profile="debug", per_case_timeout=10.0)
    tdbg = time.time() - t
    log("[C01] release %d cases %.1fs, debug %d cases %.1fs" % (len(cases), trel, len(dbg_cases), tdbg))
    stat = collections.Counter()
    seen = collections.Counter()
    nontriv = set()
    failing = []
    for build, cs, rs in (("release", cases, res), ("debug", dbg_cases, dres), ("release", wide_cases, wres)):
        for c, r in zip(cs, rs):
            st = status(r)
            stat[build + ":" + st] += 1
            if st == "ok" and r["ok"]:
                nontriv.add(c["src"])
            if st in ("panic", "crash", "none", "other"):
                failing.append((build, c, r))
    # does the parser alone (deno_ast::parse_program, no deno_lint code) already fail on that input?
    for build in ("release", "debug"):
        fs = [(c, r) for b, c, r in failing if b == build]
        pr = lib.run_vh("parse", [{"src": c["src"], "media": c["media"]} for c, r in fs], profile=build, per_case_timeout=10.0) if fs else []
        for (c, r), p in zip(fs, pr):
            if status(p) in ("panic", "crash"):
                cls = "C01.dependency-parser:" + classify_crash(p, c) + (":" + parser_input_class(c) if "crash" in p else "")
            else:
                cls = "C01." + build + ":" + classify_crash(r, c)
            seen[cls] += 1
            if seen[cls] <= 2:
                ctx.violation(cls, "lint does not return normally (%s build): %s" % (build, json.dumps(r)[:200]), {"case": c, "build": build, "result": r, "parser_alone": p})
    ctx.extra["outcomes"] = dict(stat)
    ctx.extra["failure_classes"] = dict(seen)
    ctx.correspondence("totality exploration: repo test programs x media types x rule subsets + malformed stream + deep/long inputs (release and debug builds)",
                       len(cases) + len(dbg_cases), len(nontriv), [],
                       "each case runs in a crash-isolated worker under a per-input time limit; non-trivial := input that parses and yields at least one diagnostic")
