# Checks for the diagnostic-pipeline properties: C02 C03 C04 C05 C06 C07 C09 C16 C17.
import collections, json, random, time
import lib, pipe, pipespec
from lib import log
from props import register

NQ = {"quick": 12000, "thorough": 200000}
MODEL_TARGETS = ["Pipeline/PipelineProofs.vo"]


def builtin_codes():
    return [r["code"] for r in lib.vh_registry()["rules"]]


def build_pipe_model(ctx):
    exe, out = lib.build_model("pipe")
    if exe is None:
        ctx.obligation("extraction + build of the pipeline model driver", False, out[-2000:])
        return False
    return True


def nontrivial_rule():
    return ("scenario = generated file (directives with random words/separators/codes/reasons, debugger statements, near-miss "
            "comments, shebang, CRLF, multi-byte text) x rule subset x custom words x external-linter result; compared: full ordered "
            "list of (code,start,end,message) of Linter::lint_file vs the extracted Coq model lint_inner; "
            "non-trivial := at least one diagnostic suppressed by a directive AND at least one diagnostic in the output; distinct by source text+config")


def run_pipe_correspondence(ctx, scs, builtin, label="pipe"):
    """model vs implementation on scenarios; returns (impl_outputs, model_outputs)."""
    impl = lib.run_vh("lint", [pipe.impl_case(s) for s in scs])
    mod = lib.run_model("pipe", "pipe", [pipe.model_line(s, builtin) for s in scs])
    # the theorem pipeline_order_independent, exercised: reversed hash order gives the same model output
    k = min(len(scs), 3000)
    mod_rev = lib.run_model("pipe", "pipe", [pipe.model_line(s, builtin, oracle=1) for s in scs[:k]])
    ndiff = sum(1 for a, b in zip(mod[:k], mod_rev) if a != b)
    ctx.obligation("extracted model: identity vs reversed hash-iteration oracle give equal output on %d scenarios" % k, ndiff == 0, "%d differ" % ndiff)
    mism = []
    seen = set()
    nontriv = 0
    dist = collections.Counter()
    outs = []
    for s, i, m in zip(scs, impl, mod):
        it = pipe.impl_tuples(i)
        mt = pipe.dec_diags(m) if not m.startswith(("BAD_CASE", "STACK")) else None
        outs.append(it)
        dist["lines=%d" % min(20, s["src"].count("\n"))] += 1
        dist["ext=" + ("none" if s["ext"] is None else "decline" if s["ext"].get("decline") else "some")] += 1
        dist["words=" + ("custom" if (s["fw"] or s["lw"]) else "default")] += 1
        if it is None:
            dist["impl:" + ",".join(i.keys())] += 1
        if it != mt:
            mism.append({"src": s["src"], "rules": s["rules"], "fw": s["fw"], "lw": s["lw"], "ext": s["ext"], "media": s["media"],
                         "impl": it if it is not None else i, "model": mt})
    return impl, outs, mod, mism, dist


def lib_status(r):
    if r is None:
        return "none"
    for k in ("ok", "parse_error", "panic", "crash", "timeout"):
        if k in r:
            return k
    return "other"


def pipeline_check(ctx, prop_file, focus, n=None):
    """Shared driver.  focus: which scenarios / clauses belong to this property."""
    for a in ("pipeline model: swc comment capture/attachment, byte offsets and line breaks of the file are inputs of the model; the generator's own layout knowledge supplies them, so they are re-validated against the implementation on every run",
              "pipeline model: the rules' own output is an input (raw diagnostics = predicted no-debugger diagnostics + diagnostics injected through the external-linter callback)",
              "pipeline model: comment texts contain no line break (true of JS line comments; the parser model is nevertheless faithful for texts with line breaks and is compared on such texts through the parse_ignore_comment hook)",
              "HashMap iteration order modelled as an arbitrary permutation oracle (identity and reversal are executed; independence is a theorem)"):
        if a not in ctx.assumptions:
            ctx.assumptions.append(a)
    proof_ok = ctx.proof_stage(prop_file, MODEL_TARGETS)
    if not build_pipe_model(ctx):
        return
    builtin = builtin_codes()
    rng = random.Random(ctx.seed * 1000003 + hash(ctx.prop) % 1000)
    n = n or NQ[ctx.tier]
    scs = []
    force = focus.get("force")
    for _ in range(n):
        f = {}
        if force == "default_words":
            f = {"fw": None, "lw": None}
        sc = pipe.gen_scenario(rng, f) if (rng.random() > 0.03 or force == "custom_words") else pipe.gen_tiny(rng)
        if force == "custom_words" and not (sc["fw"] or sc["lw"]):
            sc = pipe.gen_scenario(rng, {"fw": rng.choice(pipe.CUSTOM_WORDS + [None]), "lw": rng.choice(pipe.CUSTOM_WORDS)})
        scs.append(sc)
    t = time.time()
    impl, outs, mod, mism, dist = run_pipe_correspondence(ctx, scs, builtin)
    # neutralised twins on the implementation
    impl0 = lib.run_vh("lint", [pipe.impl_case(s, src=pipespec.neutralised(s)) for s in scs])
    outs0 = [pipe.impl_tuples(r) for r in impl0]
    log("[pipe] %d scenarios, impl+model+twins %.1fs, %d mismatches" % (n, time.time() - t, len(mism)))
    nontriv = set()
    clause_fail = collections.Counter()
    for s, O, O0 in zip(scs, outs, outs0):
        if O is None or O0 is None:
            continue
        if O and len([d for d in O if not pipespec.is_acc(d)]) < len(O0):
            nontriv.add(hash((s["src"], json.dumps([s["rules"], s["fw"], s["lw"], s["ext"]], sort_keys=True))))
        for clause, detail in pipespec.evaluate(s, O, O0, builtin):
            if not clause.startswith(tuple(focus["clauses"])):
                continue
            clause_fail[clause] += 1
            if clause_fail[clause] <= 3:
                ctx.violation(focus.get("classify", lambda s, c, d: c)(s, clause, detail), "%s: %s" % (clause, detail),
                              {"case": pipe.impl_case(s), "neutralised_src": pipespec.neutralised(s), "output": O, "output_neutralised": O0,
                               "replay": "echo '<case json>' | /verif/harness/target/release/vh lint"})
    ctx.correspondence("pipeline model vs Linter::lint_file", n, len(nontriv), mism[:20], nontrivial_rule(),
                       samples=[{"src": s["src"], "rules": s["rules"], "fw": s["fw"], "lw": s["lw"], "ext": s["ext"], "output": O}
                                for s, O in list(zip(scs, outs))[:2]],
                       distribution=dict(dist))
    # ---- one Linter reused for many files (per-file external linters with DIFFERENT declared codes): every file as if linted alone
    groups = collections.defaultdict(list)
    for k, s in enumerate(scs):
        groups[json.dumps([s["rules"], s["fw"], s["lw"]], sort_keys=True)].append(k)
    multi, mmeta = [], []
    for key, ks in sorted(groups.items(), key=lambda kv: -len(kv[1]))[:40]:
        ks = ks[:30]
        if len(ks) < 2:
            continue
        rules_, fw_, lw_ = json.loads(key)
        files_ = [{"src": scs[k]["src"], "media": scs[k]["media"], "ext": scs[k]["ext"]} for k in ks]
        for order in (list(range(len(ks))), list(range(len(ks)))[::-1]):
            multi.append({"linter": {"rules": rules_, "fw": fw_, "lw": lw_}, "files": files_, "order": order, "threads": 0})
            mmeta.append(ks)
    n_reuse = n_reuse_bad = 0
    if multi:
        mres = lib.run_vh("multi", multi, per_case_timeout=60)
        for ks, r in zip(mmeta, mres):
            if not r or "seq" not in r:
                continue
            for it in r["seq"]:
                k = ks[it["file"]]
                if impl[k] is None or lib_status(impl[k]) != "ok" or lib_status(it["res"]) != "ok":
                    continue
                n_reuse += 1
                if pipe.impl_tuples(it["res"]) != outs[k]:
                    n_reuse_bad += 1
                    if n_reuse_bad <= 2:
                        ctx.violation("%s.depends-on-files-linted-before-on-the-same-linter" % ctx.prop, "a file linted on a reused Linter differs from the same file linted alone",
                                      {"case": pipe.impl_case(scs[k]), "alone": outs[k], "reused": pipe.impl_tuples(it["res"])})
    ctx.correspondence("reused Linter: scenario files of one configuration linted one after the other (two orders) vs each alone", n_reuse, n_reuse, [],
                       "the external-linter results of the files differ (declared codes, diagnostics)")
    # ---- the other public entry point: the caller parses, Linter::lint_with_ast lints (same output as lint_file)
    sub_ast = list(range(0, min(len(scs), 1500)))
    ares = lib.run_vh("lint", [dict(pipe.impl_case(scs[k]), entry="ast") for k in sub_ast])
    n_ast = n_ast_bad = 0
    for k, r in zip(sub_ast, ares):
        if impl[k] is None or lib_status(impl[k]) != "ok" or lib_status(r) != "ok":
            continue
        n_ast += 1
        if pipe.impl_tuples(r) != outs[k]:
            n_ast_bad += 1
            if n_ast_bad <= 2:
                ctx.violation("%s.lint_with_ast-differs-from-lint_file" % ctx.prop, "the two entry points disagree on a scenario", {"case": pipe.impl_case(scs[k]), "lint_file": outs[k], "lint_with_ast": pipe.impl_tuples(r)})
    ctx.correspondence("entry points: Linter::lint_with_ast on the caller-parsed source vs Linter::lint_file", n_ast, n_ast, [], "scenarios with custom words, external results, every directive shape")
    # ---- the same scenarios in processes whose FIRST linted file used another configuration (other directive words, rules, external
    #      linter): state that a first Linter leaves behind in the process must not reach later Linters
    n_warm = n_warm_bad = 0
    for gi in range(8):
        foreign = pipe.gen_scenario(rng, {"fw": rng.choice(pipe.CUSTOM_WORDS), "lw": rng.choice(pipe.CUSTOM_WORDS)})
        sub = list(range(gi * 60, min(len(scs), gi * 60 + 60)))
        if not sub:
            break
        wres = lib.run_vh("lint", [pipe.impl_case(foreign)] + [pipe.impl_case(scs[k]) for k in sub], jobs=1)
        for k, r in zip(sub, wres[1:]):
            if impl[k] is None or lib_status(impl[k]) != "ok" or lib_status(r) != "ok":
                continue
            n_warm += 1
            if pipe.impl_tuples(r) != outs[k]:
                n_warm_bad += 1
                if n_warm_bad <= 2:
                    ctx.violation("%s.depends-on-an-earlier-linter-of-the-process" % ctx.prop, "a file linted after a differently configured Linter of the same process differs from the file linted first",
                                  {"case": pipe.impl_case(scs[k]), "first_case_of_the_process": pipe.impl_case(foreign), "alone": outs[k], "after": pipe.impl_tuples(r)})
    ctx.correspondence("process warm-up: scenarios linted after a differently configured Linter of the same process vs linted in the ordinary batches", n_warm, n_warm, [],
                       "8 processes, each starting with a scenario that uses custom directive words")
    ctx.extra["oracle"] = ("property-level oracle on the implementation: O=lint(file) vs O0=lint(file with every directive word overwritten "
                           "in place); clauses checked: " + ",".join(focus["clauses"]))
    return scs, outs, outs0, builtin


def dirparse_correspondence(ctx, n):
    """parse_ignore_comment (hook) vs the model's parse_comment on random comment texts (incl. line breaks, which the
    regex `.` does not match, dashes, commas, every kind of white space)."""
    rng = random.Random(ctx.seed + 77)
    words = ["deno-lint-ignore", "deno-lint-ignore-file", "w", "a-b"]
    alpha = [" ", " ", "\t", "\u00a0", "\u3000", ",", ",", "-", "-", "a", "b", "no-x", "\n", "\r", "é", "--", " -- "]
    cases, lines = [], []
    for _ in range(n):
        w = rng.choice(words)
        k = rng.random()
        body = "".join(rng.choice(alpha) for _ in range(rng.randint(0, 14)))
        text = (rng.choice(["", " ", "\t ", "\u3000"]) + (w if k < 0.85 else rng.choice(words)) + (rng.choice(["", " ", "\t", ",", "-"]) if k < 0.95 else "x") + body)
        line = rng.random() < 0.93
        cases.append({"word": w, "text": text, "line": line})
        lines.append("%s %s %d" % (pipe.enc_str(w), pipe.enc_str(text), 1 if line else 0))
    impl = lib.run_vh("dirparse", cases)
    mod = lib.run_model("pipe", "dirparse", lines)
    mism, nontriv = [], set()
    for c, i, m in zip(cases, impl, mod):
        r = pipe.Reader(m)
        tag = r.int()
        mc = sorted(r.list(r.str)) if tag == 1 else None
        ic = i.get("dir") if isinstance(i, dict) else "?"
        if tag == 2 or ic != mc:
            mism.append({"case": c, "impl": i, "model": m})
        elif mc:
            nontriv.add(c["text"])
    ctx.correspondence("parse_ignore_comment (hook) vs model parse_comment on random comment texts", n, len(nontriv), mism[:10],
                       "random texts over white space kinds, commas, dashes, `--`, line breaks, letters; non-trivial := a directive with at least one code",
                       samples=[cases[0]])


@register("C17")
def c17(ctx):
    ctx.assumptions.append("swc comment capture/attachment modelled: the generator's own layout knowledge is the model's input, so it is re-validated on every run")
    pipeline_check(ctx, "C17", {"force": "custom_words", "clauses": ["C05", "C06", "C07"]})


@register("C05")
def c05(ctx):
    pipeline_check(ctx, "C05", {"force": "default_words", "clauses": ["C05"]})
    dirparse_correspondence(ctx, 5000 if ctx.tier == "quick" else 100000)


@register("C06")
def c06(ctx):
    pipeline_check(ctx, "C06", {"force": "default_words", "clauses": ["C06"]})
    dirparse_correspondence(ctx, 20000 if ctx.tier == "quick" else 400000)


@register("C07")
def c07(ctx):
    pipeline_check(ctx, "C07", {"force": "default_words", "clauses": ["C07"]})
