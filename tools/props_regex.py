# C12 — no-invalid-regexp agrees with the ECMAScript grammar.
#   proof stage:   Props/C12.v (history independence, totality, flags, decision rule, reader cache, generated tables)
#   correspondence: extracted model (ocaml/bin/regex) vs the implementation, exactly (verdict AND message class):
#                  validate_pattern through the hook regex_validate_seq, the rule through lints of generated files
#   property:      the rule's decision vs V8 (node) as the oracle of the grammar, on the same inputs
import json, os, sys
import lib
from lib import log
from props import register
import regex as R

# Genuine finding that is not small to repair: proposed as a known finding (the main engineer decides).
PROPOSED_KNOWN = {
    "C12.v8:property_tables_older_than_v8":
        "known: property=C12 src/js_regex/unicode.rs carries the ES2020 Script/Script_Extensions/binary-property tables, so "
        "`\\p{..}` values added by later Unicode/ECMAScript editions (e.g. /\\p{scx=Kawi}/u, /\\p{Script=Vithkuqi}/u, "
        "/\\P{sc=Chorasmian}/u) are reported as invalid although engines accept them",
}


@register("C12")
def c12(ctx):
    ctx.assumptions += [
        "C12: agreement of the validator model with the ES2022 grammar (coq/Regex/Grammar.v, written from the standard) is proved on "
        "in_fragment (C12_fragment_equiv: everything but named groups, \\k, property escapes and decimal numbers >= 2^63); beyond it, and "
        "for Grammar.v itself, the grammar is represented by V8 (node 20, `new RegExp(p, f)` throws SyntaxError) on the explored inputs: "
        "there agreement is validated, not proved; flag `v` is outside the property; V8 clamps quantifier bounds to "
        "2^31-1 before comparing them (`a{4294967296,4294967295}` accepted) - there V8 deviates from the specification and the "
        "case is excluded from the comparison, not counted against the implementation",
        "C12: modelled rather than verified: js_regex/{reader,validator,unicode}.rs and check_regex of no_invalid_regexp.rs as "
        "Gallina functions (coq/Regex), tied to the code by exact model=implementation comparison (verdict and message class); "
        "the quadratic cost of chars().nth(i) inside Reader::at is outside the model",
    ]
    # translator obligation: the generated tables are regenerated from unicode.rs (fails if the lookup functions changed)
    p = lib.sh([sys.executable, os.path.join(lib.ROOT, "translate", "gen_unicode.py")], timeout=120, check=False)
    ctx.obligation("translator: coq/Gen/UnicodeProps.v regenerated from src/js_regex/unicode.rs (%s)" % p.stdout.strip()[-120:],
                   p.returncode == 0, p.stdout[-1500:])
    ctx.proof_stage("C12", ["Regex/DecisionSpec.vo", "Regex/FlagsSpec.vo", "Regex/ReaderCache.vo"])

    r = R.compare_all(ctx.tier, ctx.seed)
    cnt = r["counts"]
    by_kind = {"seq": [], "rule": [], "flags": []}
    for m in r["mismatches"]:
        by_kind.setdefault(m.get("kind", "seq"), []).append(m)
    ctx.correspondence(
        "validate_pattern: model vs implementation (verdict and message class)",
        cnt["seq_items"] + cnt["sequence_items"] + cnt.get("debug_seq_items", 0), cnt.get("seq_rejected_items", 0), by_kind["seq"][:10],
        "every string of length <= %d over the 31-symbol alphabet, sampled longer strings, strings over an alphabet with astral and "
        "BMP non-ASCII characters, structured patterns (named groups, \\k<>, \\p{}, \\u{}, surrogate pairs, classes, bounds near 2^31/2^63), "
        "deeply nested patterns, each with and without u, 64 per validator object, plus random sequences of 2-6 patterns on one "
        "validator and a debug-build run; non-trivial := rejected item" % (4 if ctx.tier == "thorough" else 3),
        samples=r.get("samples"), distribution={"message_class_histogram (0 = valid)": r.get("msgclass_histogram", {})})
    ctx.correspondence(
        "no-invalid-regexp decision: model vs implementation",
        cnt["rule_items"], cnt.get("rule_reports", 0), by_kind["rule"][:10],
        "files of 32 `new RegExp(..)` calls linted with only no-invalid-regexp: literal flags (\"\", u, valid/duplicated/unknown flag "
        "strings, one- and two-argument forms) and a non-literal flags argument (unknown flags: both-modes rule, %d items); "
        "non-trivial := reported" % cnt.get("rule_unknown_flags_items", 0))
    ctx.correspondence("validate_flags: model vs implementation", cnt["flags"], cnt["flags"], by_kind["flags"][:10],
                       "all strings of length <= 3 over dgimsuyvzG, permutations of dgimsuy, random multisets and unknown letters")
    gs = cnt.get("grammar_stats", {})
    ctx.correspondence("Grammar.v recogniser vs V8 on the fragment", cnt.get("grammar_strings", 0), cnt.get("grammar_accepted", 0),
                       r.get("grammar_mismatches", [])[:10],
                       "every string of length <= 4 over the alphabet %s, every string of length <= %d over %s, sampled strings of length 7 "
                       "and 10, every string of length <= %d over the escape alphabet %s and sampled longer ones (also over %s for surrogate "
                       "pairs), and structured patterns built from the fragment's constructs (braced quantifiers with bounds up to 2^63-1, "
                       "Annex B literals { } ], \\c \\x \\u \\0 escapes with and without their operands, code point escapes, astral "
                       "characters), strings over %s and structured patterns with decimal escapes next to capturing and other groups, "
                       "strings over %s and structured patterns with character classes (ranges, class escapes, \\b \\- \\cX, escapes as endpoints), "
                       "each in the modes in which it satisfies in_grammar (where Grammar.v is the whole ES2022 grammar; contains in_fragment, "
                       "the side condition of C12_fragment_equiv): the extracted recogniser "
                       "(FragParser.recognises, proved equivalent to the inductive predicate Pattern u of Regex/Grammar.v: "
                       "C12_recogniser_decides_grammar) accepts iff `new RegExp` does not throw; patterns whose bounds V8 clamps to 2^31-1 "
                       "are excluded (%d); non-trivial := accepted string"
                       % ("".join(R.FRAGMENT_ALPHABET), 6 if ctx.tier == "thorough" else 5, "".join(R.BRACE_ALPHABET),
                          5 if ctx.tier == "thorough" else 4, "".join(R.ESCAPE_ALPHABET), "".join(R.SURROGATE_ALPHABET),
                          "".join(R.BACKREF_ALPHABET), "".join(R.CLASS_ALPHABET), gs.get("v8_clamp_excluded", 0)),
                       distribution={"grammar_vs_v8": gs})
    ctx.obligation("extracted model started from a deliberately dirty validator state decides like a fresh one (%d cases)" % cnt["dirty_cases"],
                   not r["dirty"], json.dumps(r["dirty"][:3], ensure_ascii=False))
    ctx.extra["regex_counts"] = cnt
    ctx.extra["v8_oracle_exceptions"] = cnt.get("v8_oracle_exceptions", 0)

    # ---- search for a failing input when the correspondence broke: the patterns of the mismatching cases are
    # decided by the IMPLEMENTATION one per file and compared with V8
    if r["mismatches"]:
        pats = []
        for m in r["mismatches"]:
            for it in (m.get("case") or m.get("file") or []):
                try:
                    p0, f0 = it[0], it[1]
                except Exception:
                    continue
                fl = ("u" if f0 else "") if isinstance(f0, bool) else f0
                if isinstance(p0, str) and not R.has_surrogate(p0) and (fl is None or not R.has_surrogate(fl)):
                    pats.append((p0, fl))
        pats = sorted(set(pats), key=lambda x: (x[0], x[1] or ""))[:4000]
        if pats:
            # each pattern in both positions of a two-line file: line 0 is written with two arguments, line 1 with ONE argument when
            # the flags are the empty string (regex.js_line), so that both call forms are decided
            decs = R.impl_rule([[it, it] for it in pats])
            decisions = []
            for it, d in zip(pats, decs):
                if isinstance(d, list) and len(d) == 2:
                    # when the two call forms are decided differently the one-argument verdict is the one to compare with V8
                    d = [d[1]]
                d0 = d[0] if isinstance(d, (list, tuple)) and d and not isinstance(d[0], str) else d
                if isinstance(d, tuple) and d and d[0] in ("crash", "panic", "parse_error", "odd_diag"):
                    decisions.append((it, "panic" if d[0] in ("crash", "panic") else None))
                else:
                    decisions.append((it, bool(d0[0]) if isinstance(d0, (list, tuple)) else bool(d0)))
            decisions = [x for x in decisions if x[1] is not None]
            n2, classes2, unknown2, _ = R.compare_v8(decisions)
            for u in unknown2[:5]:
                ctx.violation("C12.v8:unclassified:search:" + u.get("signature", ""), "found while searching the mismatching cases: new RegExp(%s%s): rule %s, V8 expects %s" % (
                    json.dumps(u["pattern"], ensure_ascii=False), "" if u["flags"] is None else ", " + json.dumps(u["flags"]), u["impl"], u["v8_expected"]),
                    {"pattern": u["pattern"], "flags": u["flags"], "js": R.js_line(0, u["pattern"], u["flags"])})
    # ---- property-level failures
    for h in r["history"][:5]:
        ctx.violation("C12.history-dependent", "verdict of %r inside a sequence on one validator differs from its verdict alone: %s vs %s"
                      % (h["seq"][h["at"]], h["in_seq"], h["alone"]), {"seq": h["seq"], "at": h["at"]})
    for c, ws in sorted(r.get("v8_witnesses", {}).items()):
        for w in ws[:2]:
            ctx.violation("C12.v8:" + c, "new RegExp(%s%s): rule %s, V8 %s" % (
                json.dumps(w["pattern"], ensure_ascii=False), "" if w["flags"] is None else ", " + json.dumps(w["flags"]),
                "reports" if w["impl"] is True else "does not report" if w["impl"] is False else "panics",
                "throws" if w["v8_expected"] else "accepts"), {"pattern": w["pattern"], "flags": w["flags"], "js": R.js_line(0, w["pattern"], w["flags"])})
    seen = set()
    for u in r["v8_unclassified"]:
        cls = "C12.v8:unclassified:" + ("panic:" if u["impl"] == "panic" else "accepts-invalid:" if u["impl"] is False else "rejects-valid:") + u.get("signature", "")
        if cls in seen:
            continue
        seen.add(cls)
        ctx.violation(cls, "new RegExp(%s%s): rule %s, V8 expects %s" % (
            json.dumps(u["pattern"], ensure_ascii=False), "" if u["flags"] is None else ", " + json.dumps(u["flags"]), u["impl"], u["v8_expected"]),
            {"pattern": u["pattern"], "flags": u["flags"], "js": R.js_line(0, u["pattern"], u["flags"]), "aux": u.get("aux")})
    os.makedirs(lib.WORK, exist_ok=True)
    with open(os.path.join(lib.WORK, "c12-proposed-known.json"), "w") as f:
        json.dump(PROPOSED_KNOWN, f, indent=1, ensure_ascii=False)
    log("[C12] %d seq items, %d rule items, %d V8 comparisons, %d oracle exceptions, classes %s, %d unclassified" % (
        cnt["seq_items"], cnt["rule_items"], cnt["v8_compared"], cnt.get("v8_oracle_exceptions", 0),
        sorted(r["v8_classes"].keys()), len(r["v8_unclassified"])))
