# C15 — rule selection algebra.
import itertools, json, os, random, sys
import lib
from lib import log
from props import register
import pipe
sys.path.insert(0, os.path.join(lib.ROOT, "translate"))
import gen_registry


def enc_rule(r):
    return "%s %s %d" % (pipe.enc_str(r["code"]), pipe.enc_list(r["tags"], pipe.enc_str), r["priority"])


def enc_optlist(l):
    return pipe.enc_opt(l, lambda x: pipe.enc_list(x, pipe.enc_str))


def dec_two_lists(line):
    r = pipe.Reader(line)
    return r.list(r.str), r.list(r.str)


@register("C15")
def c15(ctx):
    reg = gen_registry.generate()          # rewrites coq/Gen/Registry.v from the running implementation
    ctx.obligation("translator: coq/Gen/Registry.v regenerated from get_all_rules()/recommended_rules()/ALL_TAGS (%d rules)" % len(reg["rules"]), True)
    ctx.proof_stage("C15", ["Select/RegistryFacts.vo"])
    exe, out = lib.build_model("select")
    if exe is None:
        ctx.obligation("extraction + build of the selection model driver", False, out[-2000:])
        return
    rng = random.Random(ctx.seed + 15)
    codes = [r["code"] for r in reg["rules"]]
    tags = reg["all_tags"]
    tagsets = [None] + [list(c) for k in range(len(tags) + 1) for c in itertools.combinations(tags, k)]
    tagsets += [["recommended", "recommended"], ["nope"], ["jsx", "nope", "react"]]
    cases = []

    def rnd_list():
        k = rng.random()
        if k < 0.2:
            return None
        if k < 0.3:
            return []
        n = rng.choice([1, 2, 3, 5, 10, 40])
        l = [rng.choice(codes) if rng.random() < 0.8 else rng.choice(["nope", "no-such", "NO-VAR", "no-var ", ""]) for _ in range(n)]
        if l and rng.random() < 0.2:
            l.append(l[0])
        return l
    nrand = 40 if ctx.tier == "quick" else 1500
    for T in tagsets:
        cases.append({"tags": T, "exclude": None, "include": None})
        for _ in range(nrand):
            cases.append({"tags": T, "exclude": rnd_list(), "include": rnd_list()})
    # the caller's rule vector need not come in the order of get_all_rules(): a third of the cases hands it over reversed / rotated
    # (the selection is sorted by code all the same: the model takes the registry as a SET)
    for k9, c9 in enumerate(cases):
        if k9 % 3 == 1:
            c9["perm"] = "rev"
        elif k9 % 3 == 2:
            c9["perm"] = "rot%d" % rng.randrange(1, 120)
    impl = lib.run_vh("select", cases)
    regenc = pipe.enc_list(reg["rules"], enc_rule)
    lines = ["%s %s %s %s" % (regenc, enc_optlist(c["tags"]), enc_optlist(c["exclude"]), enc_optlist(c["include"])) for c in cases]
    mod = lib.run_model("select", "select", lines)
    mism, nontriv = [], set()
    tagmap = {r["code"]: set(r["tags"]) for r in reg["rules"]}
    nfail = 0
    for c, i, m in zip(cases, impl, mod):
        sel, order = dec_two_lists(m)
        if i.get("selected") != sel or i.get("run_order") != order:
            mism.append({"case": c, "impl": i, "model": {"selected": sel, "run_order": order}})
        if i.get("selected") is None:
            continue
        if 0 < len(i["selected"]) < len(codes):
            nontriv.add(json.dumps(c, sort_keys=True))
        # property-level oracle, straight from the statement
        T, X, I = c["tags"], set(c["exclude"] or []), set(c["include"] or [])
        want = sorted(code for code in codes if ((T is None or tagmap[code] & set(T)) or code in I) and code not in X)
        acc = [x for x in i["run_order"] if x in ("ban-unused-ignore", "ban-unknown-rule-code")]
        ok = (i["selected"] == want and sorted(i["run_order"]) == want and i["run_order"][len(i["run_order"]) - len(acc):] == acc
              and [x for x in i["run_order"] if x not in acc] == [x for x in want if x not in acc])
        if not ok:
            nfail += 1
            if nfail <= 3:
                ctx.violation("C15.selection-algebra", "selected=%s.. expected=%s.." % (i["selected"][:5], want[:5]), {"case": c, "impl": i, "expected_selected": want})
    # the linter really RUNS the selected rules: a probe file that triggers many rules and names an unknown code
    probe = ("// deno-lint-ignore nope-unknown-code\nx;\ndebugger;\nvar a = 1;\nif (a == 1) { }\nconsole.log(1);\nenum E {}\ninterface I {}\n"
             "export function f(b) { for (;;) {} }\nlet u: any = 1;\nwindow.y = 1;\n")
    probe_cases = [c for c in cases if True][:: max(1, len(cases) // (150 if ctx.tier == "quick" else 1500))]
    sel_lists = []
    for c, i in zip(cases, impl):
        if c in probe_cases and i.get("selected") is not None:
            sel_lists.append(i["selected"])
    uniq_rules = sorted({r for sl in sel_lists for r in sl})
    single = lib.run_vh("lint", [{"src": probe, "media": "ts", "rules": [r]} for r in uniq_rules])
    alone = {}
    for r, res in zip(uniq_rules, single):
        alone[r] = sorted((d["code"], d["start"], d["end"], d["msg"]) for d in res.get("ok", []) if d["code"] == r)
    multi = lib.run_vh("lint", [{"src": probe, "media": "ts", "rules": sl} for sl in sel_lists])
    for sl, res in zip(sel_lists, multi):
        if "ok" not in res:
            continue
        got = sorted((d["code"], d["start"], d["end"], d["msg"]) for d in res["ok"] if d["code"] != "ban-unused-ignore")
        want = sorted(x for r in sl for x in alone.get(r, []) if r != "ban-unused-ignore")
        if got != want:
            missing = sorted({x[0] for x in want if x not in got}); extra = sorted({x[0] for x in got if x not in want})
            ctx.violation("C15.selected-rule-does-not-run-or-unselected-runs:" + ",".join((missing + extra)[:3]),
                          "probe file: diagnostics of the selection differ from the union of the selected rules alone (missing %s, extra %s)" % (missing, extra),
                          {"case": {"src": probe, "media": "ts", "rules": sl}})
    # recommended set
    rec = sorted(r["code"] for r in reg["rules"] if "recommended" in r["tags"])
    if sorted(reg["recommended"]) != rec:
        ctx.violation("C15.recommended-set", "recommended_rules() differs from the rules tagged recommended", {"impl": reg["recommended"], "expected": rec})
    # supplied order irrelevant
    oc = []
    for _ in range(200 if ctx.tier == "quick" else 5000):
        sub = rng.sample(codes, rng.randint(1, 30))
        oc.append({"rules": sub})
    ro = lib.run_vh("runorder", oc)
    prio = {r["code"]: r["priority"] for r in reg["rules"]}
    for c, r in zip(oc, ro):
        want = sorted(c["rules"], key=lambda x: (prio[x], x))
        if r.get("run_order") != want:
            ctx.violation("C15.run-order", "run order %s, expected %s" % (r.get("run_order"), want), {"case": c})
    ctx.correspondence("filtered_rules / run order: implementation vs extracted model", len(cases) + len(oc), len(nontriv), mism[:10],
                       "all subsets of the %d tags + absent + unknown/duplicated tags x random include/exclude lists (known, unknown, duplicated, empty, absent); "
                       "non-trivial := selection neither empty nor everything; distinct by case" % len(tags),
                       samples=[{"case": cases[5], "impl": impl[5]}])
    # the dlint example's JSON configuration feeds the same selection (examples/dlint/config.rs): keys present or omitted
    import props_dlint, random as _random
    dl = props_dlint.build_dlint(ctx)
    nsel = props_dlint.dlint_selection(ctx, dl, "C15", _random.Random(ctx.seed + 1500))
    ctx.correspondence("dlint --rule / --config (tags, include, exclude; omitted keys) run exactly the selected rules", nsel, nsel, [],
                       "reported codes of the dlint binary on a probe file vs the library run with the expected rule set")
    # a caller that parses a plain-JavaScript media type with JSX switched on (possible only through lint_with_ast): the selected
    # rules run all the same -- the result is the one of the .jsx media type
    jsx_progs = [sn["src"] for sn in PM_corpus_jsx()][:400 if ctx.tier == "quick" else 4000]
    ja = lib.run_vh("lint", [{"src": s9, "media": "jsx", "rules": "all", "entry": "ast"} for s9 in jsx_progs])
    njs = njs_bad = 0
    for med in ("js", "mjs", "unknown"):
        jb = lib.run_vh("lint", [{"src": s9, "media": med, "rules": "all", "entry": "ast", "jsx_syntax": True} for s9 in jsx_progs])
        for s9, x9, y9 in zip(jsx_progs, ja, jb):
            if "ok" not in (x9 or {}) or "ok" not in (y9 or {}):
                continue
            njs += 1
            kx = sorted((d["code"], d["start"], d["end"]) for d in x9["ok"] if d["code"].startswith("jsx-") or d["code"].startswith("react-"))
            ky = sorted((d["code"], d["start"], d["end"]) for d in y9["ok"] if d["code"].startswith("jsx-") or d["code"].startswith("react-"))
            if kx != ky:
                njs_bad += 1
                if njs_bad <= 2:
                    ctx.violation("C15.selected-rules-not-run-for-media-%s" % med, "JSX rules give %s for the caller-parsed %s source, %s for .jsx" % (ky[:3], med, kx[:3]), {"src": s9, "media": med})
    ctx.correspondence("lint_with_ast on a JavaScript media type parsed with JSX on: the JSX-tagged rules of the selection run as for .jsx", njs, njs, [], "test programs of the jsx-* / react-* rules")


def PM_corpus_jsx():
    import props_misc
    return [sn for sn in props_misc.get_corpus() if sn["rule_file"].startswith(("jsx_", "react_")) and "<" in sn["src"] and ": " not in sn["src"][:0]]
