# Regex area (C12, and the validator parts of C01/C02): generators, encoders, implementation/model/V8 runners
# and the comparison used by the check script.
#
#   impl_seq(cases)   cases = [[(pattern, u), ...], ...]   one EcmaRegexValidator per case (hook regex_validate_seq)
#                     -> per case: list of ("ok",) | ("err", msgclass)   or   ("panic", kind) for the whole case
#   model_seq(cases)  -> per case: list of ("ok",) | ("err", msgclass) | ("panic", site) | ("fuel",) | ("nr",)
#                     (the `debug` argument of the model_* functions is kept for compatibility and ignored: since the
#                     digit accumulators saturate, debug and release builds behave identically; `profile="debug"` on
#                     the impl_* side still selects the debug harness)
#   impl_rule(files)  files = [[(pattern, flags), ...], ...]  one JS file per entry, one `new RegExp("..","..");`
#                     per line, linted with only no-invalid-regexp -> per file: list of 0/1  or ("panic", msg).
#                     flags = None means "second argument is not a string literal" (`new RegExp("..", flagsVar);`:
#                     flags unknown, the rule reports only if the pattern is invalid in both modes); flags = "" is
#                     written alternately `new RegExp("..", "")` and `new RegExp("..")` (both = Some("") in the rule)
#   model_rule(files) -> per file: list of 0 | 1 | 2 (panic) | 3 (fuel) | 4 (not reached after a panic)
#   v8_verdicts(cases) cases = [(pattern, flags), ...] -> list of True (throws SyntaxError) / False / None (other)
#   compare_all(tier, seed) -> dict (see bottom)
import json, os, subprocess, sys, time, random, itertools, re, tempfile

sys.path.insert(0, os.path.dirname(os.path.abspath(__file__)))
from lib import *

ALPHABET31 = list("a()[]{}?*+|\\1,-^$k<>u:=!.0cbxpd")
ASTRAL = "\U0001F600"       # 😀
ASTRAL2 = "\U0001F601"      # 😁
ALPHABET_ASTRAL = list("a()[]{}?*+|\\1,-^$k<>u=!.0") + [ASTRAL, ASTRAL2, "é"]

# ---------------------------------------------------------------------------------------------------------
# message classes (coq/Regex/Validator.v E_*, RuleDecision.v)
# ---------------------------------------------------------------------------------------------------------
MSG_CLASSES = [
    ("Unmatched ')'", 1), ("\\ at end of pattern", 2), ("Lone quantifier brackets", 3),
    ("Unexpected character ", 4), ("Invalid named capture referenced: ", 5), ("Nothing to repeat", 6),
    ("Unterminated group", 7), ("numbers out of order in {} quantifier", 8), ("Incomplete quantifier", 9),
    ("Invalid group", 10), ("Duplicate capture group name", 11), ("Invalid escape", 12),
    ("Invalid property name", 13), ("Invalid named reference", 14), ("Unterminated character class", 15),
    ("Invalid character class", 16), ("Range out of order in character class", 17),
    ("Invalid capture group name", 18), ("Invalid unicode escape", 19),
    ("Duplicated flag ", 20), ("Invalid flag ", 21),
]
PREFIX_CLASSES = {4, 5, 20, 21}


def msg_class(msg):
    for text, k in MSG_CLASSES:
        if (msg.startswith(text) if k in PREFIX_CLASSES else msg == text):
            return k
    return -1


PANIC_SITES = {"unwrap": {965, 970}}


def panic_kind(msg):
    if "unwrap()" in msg and "None" in msg:
        return "unwrap"
    if "overflow" in msg:
        return "overflow"
    return "other:" + msg[:60]


# ---------------------------------------------------------------------------------------------------------
# generators
# ---------------------------------------------------------------------------------------------------------
def gen_exhaustive(maxlen, alphabet=ALPHABET31, minlen=0):
    for n in range(minlen, maxlen + 1):
        for t in itertools.product(alphabet, repeat=n):
            yield "".join(t)


def gen_sampled(rng, n, length, alphabet=ALPHABET31):
    return ["".join(rng.choice(alphabet) for _ in range(length)) for _ in range(n)]


GOOD_PROPS = ["Letter", "L", "Lu", "gc=Lu", "General_Category=Letter", "Script=Greek", "sc=Grek", "scx=Latin",
              "Script_Extensions=Latn", "ASCII", "Alphabetic", "Emoji", "Extended_Pictographic", "Any", "Assigned",
              "White_Space", "Script=Elymaic", "sc=Chorasmian", "ID_Start", "Uppercase", "punct", "digit"]
BAD_PROPS = ["Foo", "gc=Foo", "Script=", "=Lu", "Letter=", "L u", "Script=Greek=Greek", "sc", "Script", "gc", "",
             "Lu1", "1", "Script_Extensions", "letter", "Script=Vithkuqi", "scx=Kawi", "RGI_Emoji", "Basic_Emoji",
             "Emoji_Keycap_Sequence", "ASCII=Y", "é", "General_Category", "sc=😀"]
BIG_NUMS = ["0", "1", "2", "9", "10", "00", "007", "4294967295", "4294967296", "9223372036854775806",
            "9223372036854775807", "9223372036854775808", "9223372036854775809", "18446744073709551615",
            "18446744073709551616", "18446744073709551617", "99999999999999999999", "123456789012345678901234567890",
            "27670116110564327424", "9223372036854775817", "92233720368547758070"]
BIG_HEX = ["0", "41", "10FFFF", "110000", "D800", "DFFF", "1F600", "0000041", "FFFFFFFF", "7FFFFFFFFFFFFFFF",
           "8000000000000000", "8000000000000041", "FFFFFFFFFFFFFFFF", "10000000000000041", "FFFFFFFFFFFFFFFFF",
           "1000000000000DC00", "80000000000000AA", "g", "", "fffffffffffffffffffffff41"]
IDS = ["a", "b", "abc", "$", "_", "a1", "é", "aé", "\u03c0", "a\u200c", "a\u200d", "\U0001D4D1", "x\U0001D7D8",
       "\\u0061", "\\u{62}", "a\\u0031", "\\uD835\\uDCD1", "\\u{1D4D1}", "1a", "", "a-b", "a b", "😀", "a😀",
       "\\uD800", "\\u{110000}", "\\u00e9", "a\\u{200d}", "\u00aa", "\u00b7", "a\u00b7", "\u2118", "a\u0300",
       "\u0300", "\\u{8000000000000041}", "k", "A", "Z9_$",
       # code points that END a range of the ID_Start / ID_Continue tables or form a one-element range; a lone lead surrogate escape before another escape
       "\u00b5", "\u00ba", "\u00f6", "gr\u00f6\u00dfe", "\u02c1", "\u00d6", "\u02d1", "\u037f", "a\u0387", "\u2071", "\uffdc", "\\uD800\\u0041", "\\uDBFF\\u{41}", "a\\uD83D\\u0062"]
ATOMS = ["a", "b", "1", ".", "é", ASTRAL, "\\d", "\\D", "\\w", "\\s", "\\b", "\\B", "^", "$", "\\n", "\\t", "\\cA", "\\c1",
         "\\c", "\\0", "\\00", "\\01", "\\08", "\\1", "\\2", "\\9", "\\10", "\\377", "\\400", "\\8", "\\x41", "\\x4",
         "\\xg", "\\u0041", "\\u004", "\\uD83D\\uDE00", "\\uD83D", "\\uDE00", "\\uD800", "\\uDFFF\\uD800", "\\u{41}",
         "\\u{1F600}", "\\u{110000}", "\\u{}", "\\u{41", "\\a", "\\e", "\\-", "\\/", "\\.", "\\$", "\\k", "\\p", "\\P",
         "\\_", "\\é", "\\" + ASTRAL, "-", ",", "{", "}", "]", "k", "<", ">", ":", "=", "!", "/"]
QUANTS = ["*", "+", "?", "*?", "+?", "??", "{1}", "{1,}", "{1,2}", "{2,1}", "{,1}", "{}", "{1", "{1,2", "{a}", "{1}?",
          "{0}", "{1 }", "{ 1}"]


def _quant(rng):
    r = rng.random()
    if r < 0.55:
        return rng.choice(QUANTS)
    a, b = rng.choice(BIG_NUMS), rng.choice(BIG_NUMS)
    form = rng.choice(["{%s}" % a, "{%s,}" % a, "{%s,%s}" % (a, b), "{%s,%s}?" % (a, b), "{%s" % a, "{%s,%s" % (a, b)])
    return form


def _class(rng):
    items = []
    for _ in range(rng.randint(0, 4)):
        r = rng.random()
        ca = ["a", "z", "0", "9", "-", "^", "é", ASTRAL, ASTRAL2, "\\d", "\\w", "\\b", "\\-", "\\]", "\\c1", "\\c_", "\\cA",
              "\\c", "\\x41", "\\u0041", "\\u{41}", "\\u{1F600}", "\\uD83D\\uDE00", "\\uD83D", "\\0", "\\1", "\\12",
              "\\k", "\\B", "\\p{L}", "\\P{Lu}", "\\p{Foo}", "[", "(", ")", "{", "\\u{%s}" % rng.choice(BIG_HEX),
              "\\a", "\\e", "\\q", "\\/", ".", "*", "$"]
        if r < 0.5:
            items.append(rng.choice(ca))
        else:
            items.append(rng.choice(ca) + "-" + rng.choice(ca))
    s = "[" + rng.choice(["", "", "^"]) + "".join(items)
    if rng.random() < 0.92:
        s += "]"
    return s


def _atom(rng, depth):
    r = rng.random()
    if r < 0.30:
        return rng.choice(ATOMS)
    if r < 0.40:
        return _class(rng)
    if r < 0.48:
        return "\\" + rng.choice("pP") + rng.choice(["{%s}", "{%s}", "{%s}", "{%s", "%s}", "%s"]) % rng.choice(
            GOOD_PROPS + BAD_PROPS)
    if r < 0.55:
        return "\\u{" + rng.choice(BIG_HEX) + rng.choice(["}", "}", "}", ""])
    if r < 0.61:
        return "\\k" + rng.choice(["<%s>", "<%s>", "<%s>", "<%s", "%s>", "%s"]) % rng.choice(IDS)
    if r < 0.65:
        return "\\" + rng.choice(BIG_NUMS)
    if r < 0.70:
        hi = rng.choice(["D800", "D83D", "DBFF", "d83d", "DC00", "E000", "0041"])
        lo = rng.choice(["DC00", "DE00", "DFFF", "de00", "D800", "E000", "0041"])
        return rng.choice(["\\u{0}\\u{1}", "\\u{0}\\u{1}", "\\u{0}", "\\u{0}\\{1}", "\\u{0}\\u{{{1}}}"]).format(hi, lo)
    if depth <= 0:
        return rng.choice(ATOMS)
    body = _disj(rng, depth - 1)
    r2 = rng.random()
    close = ")" if rng.random() < 0.93 else ""
    if r2 < 0.22:
        return "(" + body + close
    if r2 < 0.36:
        return "(?:" + body + close
    if r2 < 0.60:
        return "(?<" + rng.choice(IDS) + rng.choice([">", ">", ">", ">", ">", ""]) + body + close
    if r2 < 0.70:
        return "(?=" + body + close
    if r2 < 0.78:
        return "(?!" + body + close
    if r2 < 0.87:
        return "(?<=" + body + close
    if r2 < 0.95:
        return "(?<!" + body + close
    return "(?" + rng.choice(["", "<", "i:", "-", "<>", "P<a>", "<a", "'a'"]) + body + close


def _alt(rng, depth):
    out = []
    for _ in range(rng.choice([0, 1, 1, 2, 2, 3, 4])):
        out.append(_atom(rng, depth))
        if rng.random() < 0.35:
            out.append(_quant(rng))
    return "".join(out)


def _disj(rng, depth):
    return "|".join(_alt(rng, depth) for _ in range(rng.choice([1, 1, 1, 2, 3])))


def gen_structured(rng, n):
    out = []
    for _ in range(n):
        p = _disj(rng, rng.choice([0, 1, 2, 2, 3]))
        r = rng.random()
        if r < 0.04:           # truncate (end-of-input cases)
            p = p[:rng.randint(0, len(p))]
        elif r < 0.07:
            p = p + rng.choice(["\\", "(", "(?<a", "(?<", "\\k<a", "[", "{", "\\u", "\\p{", "\\c", "(?<a\\u0062", "(?<a\\", "(?<\\uD835"])
        if r > 0.88:
            # classes with escaped brackets / parens next to numeric back-references (group pre-count vs class scanning)
            frag = ["[\\](]", "[^\\]()]+", "[\\]]", "[\\[(]", "[(]", "[)]", "[\\\\(]", "\\1", "\\2", "\\3", "(a)", "(?:b)", "(?<n>c)", "\\k<n>", "[\\])(]", "\\(", "\\)"]
            p = "".join(rng.choice(frag) for _ in range(rng.randint(2, 5))) + (p if rng.random() < 0.3 else "")
        if len(p) > 120:
            p = p[:120]
        out.append(p)
    return out


def gen_deep(rng, n):
    """deeply nested / long patterns (fuel of the model, recursion of the implementation)."""
    opens = ["(", "(?:", "(?=", "(?!", "(?<=", "(?<!", "(?<n%d>"]
    out = []
    for _ in range(n):
        d = rng.choice([5, 10, 20, 40, 80])
        stack, s = [], ""
        for i in range(d):
            o = rng.choice(opens)
            s += (o % i if "%d" in o else o) + rng.choice(["", "a", "a|", "|", "[a-z]", "a*", "\\k<n0>"])
        s += rng.choice(["", "x", "\\1", "|"])
        closes = d if rng.random() < 0.8 else rng.randint(0, d + 1)
        for i in range(closes):
            s += ")" + rng.choice(["", "", "*", "+?", "{1,2}", "|b"])
        out.append(s)
        if rng.random() < 0.2:
            out.append("|".join(rng.choice(["a", "", "b*", "(c)", "[d]"]) for _ in range(rng.choice([10, 50, 150]))))
            out.append("".join(rng.choice(["a", "b*", "(c)", "[d-e]", "\\d", "x{2}"]) for _ in range(rng.choice([10, 50, 150]))))
    return out


FLAG_LETTERS = "dgimsuy"


def gen_flags(rng, with_v=True):
    r = rng.random()
    if r < 0.15:
        return ""
    if r < 0.30:
        return "u"
    if r < 0.62:   # valid subset in random order
        k = rng.randint(1, 7)
        return "".join(rng.sample(FLAG_LETTERS, k))
    if r < 0.78:   # multiset (duplicates likely)
        return "".join(rng.choice(FLAG_LETTERS) for _ in range(rng.randint(2, 5)))
    pool = FLAG_LETTERS + ("v" if with_v else "") + "zUG x1é"
    return "".join(rng.choice(pool) for _ in range(rng.randint(1, 4)))


def gen_sequences(rng, n, pool=None):
    """Random sequences of 2-6 (pattern, u) pairs for history dependence: patterns that leave state behind
    (named groups, backreference names, big last_int_value, quantifiable assertions) next to patterns that read it."""
    stateful = ["(?<a>x)", "(?<a>x)(?<b>y)", "\\k<a>", "(?<a>)\\k<a>", "\\k<b>", "(?=a)", "(?=a)*", "(?<=a)", "a{2,1}",
                "a{1,2}", "[z-a]", "[a-z]", "\\1", "(a)\\1", "\\2", "(a)(b)\\2", "\\u{10FFFF}", "[\\d-a]", "\\p{Lu}",
                "\\p{Script=Greek}", "(?<é>)", "\\k<é>", "(?<a", "(", ")", "\\", "", "a", "(?<a>)(?<a>)", "\\k",
                "\\k<a", "{1}", "a{99999999999999999999}", "(?<\\u0061>)\\k<a>", "😀)", "(?<😀>)", "[😀-😁]"]
    out = []
    # sequences of deeply nested invalid patterns followed by deep valid ones (state not unwound on error paths)
    for _ in range(max(20, n // 40)):
        seq = []
        for _ in range(rng.randint(2, 5)):
            d = rng.choice([40, 80, 120])
            seq.append(("(?:a|(b)" * d + ")" * rng.randint(0, d // 2), rng.random() < 0.5))
        d = rng.choice([30, 60, 100, 150])
        seq.append(("(" * d + "x" + ")" * d, rng.random() < 0.5))
        seq.append(("a", False))
        out.append(seq)
    for _ in range(n):
        k = rng.randint(2, 6)
        seq = []
        for _ in range(k):
            r = rng.random()
            if r < 0.6 or not pool:
                p = rng.choice(stateful)
            else:
                p = rng.choice(pool)
            seq.append((p, rng.random() < 0.5))
        out.append(seq)
    return out


# ---------------------------------------------------------------------------------------------------------
# encoders
# ---------------------------------------------------------------------------------------------------------
def enc_str(s):
    return "%d %s" % (len(s), " ".join(str(ord(c)) for c in s)) if s else "0"


def has_surrogate(s):
    return any(0xD800 <= ord(c) <= 0xDFFF for c in s)


def js_string(s):
    """A JS double-quoted string literal whose value is exactly s (s has no lone surrogates)."""
    out = ['"']
    for c in s:
        o = ord(c)
        if c == "\\":
            out.append("\\\\")
        elif c == '"':
            out.append('\\"')
        elif c == "\n":
            out.append("\\n")
        elif c == "\r":
            out.append("\\r")
        elif o in (0x2028, 0x2029):
            out.append("\\u%04x" % o)
        elif o < 0x20 or o == 0x7f:
            out.append("\\x%02x" % o)
        else:
            out.append(c)
    out.append('"')
    return "".join(out)


def js_line(k, p, f):
    if f is None:
        return "new RegExp(%s, flagsVar);\n" % js_string(p)
    if f == "" and k % 2 == 1:
        return "new RegExp(%s);\n" % js_string(p)
    return "new RegExp(%s, %s);\n" % (js_string(p), js_string(f))


def js_file(items):
    return "".join(js_line(k, p, f) for k, (p, f) in enumerate(items))


def enc_optstr(f):
    return "0" if f is None else "1 " + enc_str(f)


# ---------------------------------------------------------------------------------------------------------
# runners
# ---------------------------------------------------------------------------------------------------------
def impl_seq(cases, profile="release"):
    for seq in cases:
        for p, _ in seq:
            if has_surrogate(p):
                raise Infra("lone surrogate in a pattern sent to the Rust hook: use \\uD800 escapes inside the pattern")
    res = run_vh("regex", [{"seq": [[p, bool(u)] for p, u in seq]} for seq in cases], profile=profile)
    out = []
    for seq, r in zip(cases, res):
        if r is None or "crash" in r or "bad_output" in r or "bad_case" in r:
            out.append(("crash", json.dumps(r)[:200]))
        elif "panic" in r:
            out.append(("panic", panic_kind(r["panic"])))
        else:
            out.append([("ok",) if v is None else ("err", msg_class(v)) for v in r["verdicts"]])
    return out


def impl_flags(flag_strings):
    res = run_vh("regex", [{"flags": f} for f in flag_strings])
    return [bool(r.get("flags_ok")) if isinstance(r, dict) and "flags_ok" in r else None for r in res]


def model_seq(cases, debug=False):
    lines = ["%d %d %s" % (1 if debug else 0, len(seq), " ".join("%s %d" % (enc_str(p), 1 if u else 0) for p, u in seq))
             for seq in cases]
    res = run_model("regex", "seq", lines)
    out = []
    for ln in res:
        t = ln.split()
        i, items = 0, []
        while i < len(t):
            k = int(t[i]); i += 1
            if k == 0:
                items.append(("ok",))
            elif k == 1:
                items.append(("err", int(t[i]))); i += 1
            elif k == 2:
                items.append(("panic", int(t[i]))); i += 1
            elif k == 3:
                items.append(("fuel",))
            elif k == 4:
                items.append(("nr",))
            else:
                raise Infra("bad model output " + ln[:100])
        out.append(items)
    return out


def model_flags(flag_strings):
    res = run_model("regex", "flags", [enc_str(f) for f in flag_strings])
    return [ln.split()[0] == "0" for ln in res]


def model_rule(files, debug=False):
    lines = ["%d %d %s" % (1 if debug else 0, len(items), " ".join("%s %s" % (enc_str(p), enc_optstr(f)) for p, f in items))
             for items in files]
    return [[int(x) for x in ln.split()] for ln in run_model("regex", "rule", lines)]


def model_dirty(pairs, debug=False):
    lines = ["%d %s %s" % (1 if debug else 0, enc_str(p), enc_optstr(f)) for p, f in pairs]
    return [int(ln.split()[0]) for ln in run_model("regex", "dirty", lines)]


def impl_rule(files, profile="release"):
    cases = []
    for items in files:
        for p, f in items:
            if has_surrogate(p) or has_surrogate(f or ""):
                raise Infra("lone surrogate in a pattern/flags for the Rust side")
        cases.append({"src": js_file(items), "media": "js", "rules": ["no-invalid-regexp"]})
    res = run_vh("lint", cases, profile=profile)
    out = []
    for items, case, r in zip(files, cases, res):
        if r is None or "crash" in r or "bad_output" in r or "bad_case" in r:
            out.append(("crash", json.dumps(r)[:200]))
        elif "panic" in r:
            out.append(("panic", panic_kind(r["panic"])))
        elif "parse_error" in r:
            out.append(("parse_error", r["parse_error"][:200]))
        else:
            # byte offset of each line start
            starts, off = [], 0
            for ln in case["src"].split("\n")[:-1]:
                starts.append(off)
                off += len(ln.encode("utf-8")) + 1
            idx = {s: i for i, s in enumerate(starts)}
            v = [0] * len(items)
            bad = None
            for d in r["ok"]:
                if d.get("code") != "no-invalid-regexp" or d.get("start") not in idx:
                    bad = d
                else:
                    v[idx[d["start"]]] += 1
            out.append(("odd_diag", json.dumps(bad)[:200]) if bad else v)
    return out


NODE_SCRIPT = r"""
const fs = require('fs');
const cases = JSON.parse(fs.readFileSync(process.argv[2], 'utf8'));
const out = new Array(cases.length);
for (let i = 0; i < cases.length; i++) {
  try { new RegExp(cases[i][0], cases[i][1]); out[i] = 0; }
  catch (e) { out[i] = (e instanceof SyntaxError) ? 1 : 2; }
}
fs.writeFileSync(process.argv[3], JSON.stringify(out));
"""


def v8_verdicts(cases, jobs=None):
    """cases: (pattern, flags) python strings (lone surrogates allowed: JSON carries them as \\udXXX escapes).
    True = `new RegExp(p, f)` throws SyntaxError, False = no exception, None = some other exception."""
    cases = list(cases)
    if not cases:
        return []
    os.makedirs(WORK, exist_ok=True)
    d = tempfile.mkdtemp(prefix="v8_", dir=WORK)
    js = os.path.join(d, "run.js")
    open(js, "w").write(NODE_SCRIPT)
    jobs = max(1, min(jobs or NCPU, (len(cases) + 19999) // 20000))
    shards = [cases[j::jobs] for j in range(jobs)]
    procs = []
    for j, sh_cases in enumerate(shards):
        inp, outp = os.path.join(d, "in%d.json" % j), os.path.join(d, "out%d.json" % j)
        with open(inp, "w") as f:
            json.dump([[p, fl] for p, fl in sh_cases], f, ensure_ascii=True)
        procs.append((subprocess.Popen(["node", "--stack-size=4000", js, inp, outp], stdout=subprocess.PIPE,
                                       stderr=subprocess.STDOUT), outp))
    res = [None] * len(cases)
    for j, (p, outp) in enumerate(procs):
        o, _ = p.communicate(timeout=1800)
        if p.returncode != 0 or not os.path.exists(outp):
            raise Infra("node failed: " + (o or b"").decode()[-500:])
        vals = json.load(open(outp))
        for k, v in enumerate(vals):
            res[j + k * jobs] = True if v == 1 else False if v == 0 else None
    shutil.rmtree(d, ignore_errors=True)
    return res


# ---------------------------------------------------------------------------------------------------------
# V8 as the oracle of the ECMAScript grammar
# ---------------------------------------------------------------------------------------------------------
# Known disagreement class (a genuine finding that is not small to repair):
#   property_tables_older_than_v8   unicode.rs carries the ES2020 Script/Script_Extensions/binary property tables; V8
#                                   (node 20, Unicode 15) knows later values (`\p{scx=Kawi}`, `\p{Script=Vithkuqi}`)
# Oracle exception (NOT a disagreement of the implementation with the specification):
#   v8_clamps_quantifier_bounds_to_2_31   V8 clamps quantifier bounds to 2^31-1 before comparing them, so it accepts
#                                   `a{4294967296,4294967295}`, which the specification (and the implementation) reject.
# Retired (repaired in /repo by fix: commits; a recurrence surfaces as unclassified): i64_wraparound_in_digits,
#   panic_group_name_at_end_of_input, noflags_reports_only_if_invalid_in_both_modes, utf16_length_cut_without_u,
#   nul_escape_followed_by_digit_under_u, class_negation_caret_parsed_as_class_atom.
KNOWN_V8_CLASSES = ["property_tables_older_than_v8"]
V8_ORACLE_EXCEPTIONS = ["v8_clamps_quantifier_bounds_to_2_31"]

_LONG_DEC = re.compile(r"[0-9]{19,}")
_LONG_HEX = re.compile(r"\\u\{[0-9a-fA-F]{16,}")
_PROP = re.compile(r"\\[pP]\{([A-Za-z_0-9=]*)\}")
_BOUNDS = re.compile(r"\{([0-9]+),([0-9]+)\}")


def _v8_clamped_bounds(pattern):
    return any(int(a) > int(b) >= 2147483647 for a, b in _BOUNDS.findall(pattern))


def v8_expected(flags, v8_n, v8_u):
    """What the property demands of the rule, with V8 as the grammar: literal flags -> the mode selected by `u`;
    unknown flags (None) -> report only if invalid in both modes."""
    if flags is None:
        return bool(v8_n) and bool(v8_u)
    return v8_u if "u" in flags else v8_n


def _fix_bounds(pattern):
    return _BOUNDS.sub(lambda m: "{1,2}" if int(m.group(1)) > int(m.group(2)) >= 2147483647 else m.group(0), pattern)


def _fix_props(pattern):
    return re.sub(r"\\[pP]\{[A-Za-z_0-9=]*\}", lambda m: m.group(0)[:2] + "{L}", pattern)


def classify_v8_disagreement(pattern, flags, impl_reports, v8_throws, aux=None):
    """Class name of a disagreement between the rule's decision and V8, or None (= unclassified, or no disagreement).
    impl_reports: True/False or "panic".  v8_throws: the expected decision (v8_expected).  aux (computed by aux_for
    when absent): per-mode verdicts {impl_u, impl_n, v8_u, v8_n} (True = invalid) of the pattern, of the pattern with
    the clamped bounds rewritten to {1,2} (b_*), and additionally every property escape rewritten to \p{L} (bp_*).
    A class is only assigned when the rewrite that removes the suspected cause makes implementation and V8 agree."""
    if impl_reports == "panic" or impl_reports not in (True, False):
        return None
    if bool(impl_reports) == bool(v8_throws):
        return None
    if aux is None:
        aux = aux_for([(pattern, flags)])[0]
    if "panic" in (aux["impl_u"], aux["impl_n"]):
        return None
    relevant = ["u", "n"] if flags is None else ["u"] if "u" in flags else ["n"]
    causes = set()
    for m in relevant:
        if aux["impl_" + m] == aux["v8_" + m]:
            continue
        if _v8_clamped_bounds(pattern) and aux["impl_" + m] is True and aux["b_impl_" + m] == aux["b_v8_" + m]:
            causes.add("v8_clamps_quantifier_bounds_to_2_31")
        elif m == "u" and _PROP.search(pattern) and aux["impl_u"] is True and aux["v8_u"] is False \
                and aux["bp_impl_u"] == aux["bp_v8_u"]:
            # (a pattern that has both a clamped bound and a newer property value lands here too)
            causes.add("property_tables_older_than_v8")
        else:
            causes.add(None)
    if None in causes or not causes:
        return None
    return sorted(causes)[0]


def aux_for(pairs):
    """per-mode verdicts of the implementation (hook) and of V8 for each (pattern, flags) and its two rewrites."""
    out = [dict() for _ in pairs]
    for prefix, fn in (("", lambda p: p), ("b_", _fix_bounds), ("bp_", lambda p: _fix_props(_fix_bounds(p)))):
        pats = [fn(p) for p, _ in pairs]
        iu = impl_seq([[(p, True)] for p in pats])
        inn = impl_seq([[(p, False)] for p in pats])
        v8u = v8_verdicts([(p, "u") for p in pats])
        v8n = v8_verdicts([(p, "") for p in pats])

        def iv(r):
            return "panic" if isinstance(r, tuple) else (r[0][0] == "err")
        for o, a, b, c, d in zip(out, iu, inn, v8u, v8n):
            o.update({prefix + "impl_u": iv(a), prefix + "impl_n": iv(b), prefix + "v8_u": c, prefix + "v8_n": d})
    return out


def signature(pattern):
    """short, input-independent-ish signature of a pattern for naming an unclassified disagreement: the sequence of
    construct kinds that occur (so that different defects get different class names)."""
    kinds = []
    for rx, name in ((r"\\[pP]\{", "prop"), (r"\\k<", "kref"), (r"\(\?<[^=!]", "named"), (r"\(\?<[=!]", "lookbehind"),
                     (r"\(\?[=!]", "lookahead"), (r"\\u\{", "ubrace"), (r"\\u[0-9a-fA-F]{4}", "u4"), (r"\\x", "hex"),
                     (r"\\c", "ctrl"), (r"\\[0-9]", "decesc"), (r"\[\^", "negclass"), (r"\[", "class"),
                     (r"\{[0-9]*,?[0-9]*\}?", "braces"), (r"[*+?]", "quant"), (r"\\[^pPkuxc0-9]", "idesc"),
                     (r"[\U00010000-\U0010FFFF]", "astral"), (r"\(", "group"), (r"\|", "alt")):
        if re.search(rx, pattern):
            kinds.append(name)
    return "+".join(kinds[:4]) or "plain"


# ---------------------------------------------------------------------------------------------------------
# comparison
# ---------------------------------------------------------------------------------------------------------
def _chunks(xs, n):
    return [xs[i:i + n] for i in range(0, len(xs), n)]


def _stable_split(cases, run_model_fn, is_stop):
    """Iterate splitting until no case has items behind a stop."""
    for _ in range(64):
        mo = run_model_fn(cases)
        if not any(any(is_stop(m) for m in o[:-1]) for o in mo):
            return cases, mo
        new = []
        for case, o in zip(cases, mo):
            k = next((i for i, m in enumerate(o[:-1]) if is_stop(m)), None)
            if k is None:
                new.append(case)
            else:
                new.append(case[:k + 1]); new.append(case[k + 1:])
        cases = new
    raise Infra("panic splitting did not converge")


def compare_seq(cases, debug=False, profile="release", stats=None):
    """model vs implementation on sequences; returns (n_items, mismatches).  stats (dict) accumulates the
    histogram of message classes of the implementation (0 = valid) and the set of distinct rejected items."""
    cases, mo = _stable_split(cases, lambda cs: model_seq(cs, debug), lambda m: m[0] in ("panic", "fuel"))
    io = impl_seq(cases, profile=profile)
    mism, n = [], 0
    for case, m, i in zip(cases, mo, io):
        n += len(case)
        if isinstance(i, tuple):
            ok = (i[0] == "panic" and m and m[-1][0] == "panic" and m[-1][1] in PANIC_SITES.get(i[1], ()))
            if not ok:
                mism.append({"kind": "seq", "case": case, "model": m, "impl": i})
        elif m != i:
            k = next((j for j in range(len(case)) if j >= len(i) or m[j] != i[j]), None)
            mism.append({"kind": "seq", "case": case, "at": k, "model": m, "impl": i})
        if stats is not None and not isinstance(i, tuple):
            h = stats.setdefault("msgclass", {})
            for it, v in zip(case, i):
                c = v[1] if v[0] == "err" else 0
                h[c] = h.get(c, 0) + 1
                if c:
                    stats["rejected"] = stats.get("rejected", 0) + 1
    return n, mism


def compare_rule(files, debug=False, profile="release"):
    """model vs implementation on files of RegExp calls; returns (n_items, mismatches, flat list of
    ((pattern, flags), impl decision) with decision True/False/"panic")."""
    files, mo = _stable_split(files, lambda fs: model_rule(fs, debug), lambda m: m in (2, 3))
    io = impl_rule(files, profile=profile)
    mism, n, flat = [], 0, []
    for items, m, i in zip(files, mo, io):
        n += len(items)
        if isinstance(i, tuple):
            ok = (i[0] == "panic" and m and m[-1] == 2)
            if not ok:
                mism.append({"kind": "rule", "file": items, "model": m, "impl": i})
            else:
                flat.append((items[-1], "panic"))
                # the items before the panicking one were decided by the model only
        elif m != i:
            k = next((j for j in range(len(items)) if m[j] != i[j]), None)
            mism.append({"kind": "rule", "file": items, "at": k, "model": m, "impl": i})
        else:
            flat += [(it, bool(d)) for it, d in zip(items, i)]
    return n, mism, flat


def compare_flags(flag_strings):
    m, i = model_flags(flag_strings), impl_flags(flag_strings)
    return [{"kind": "flags", "flags": f, "model": a, "impl": b} for f, a, b in zip(flag_strings, m, i) if a != b]


def compare_v8(decisions):
    """decisions: ((pattern, flags), True/False/"panic") in a deterministic order.  flags None = unknown flags.
    Returns (n_compared, {class: [witness...]}, unclassified, n_oracle_exceptions).  Deterministic for a given input."""
    seen, uniq = set(), []
    for key, d in decisions:
        if key not in seen and "v" not in (key[1] or ""):       # flag v is outside the property
            seen.add(key); uniq.append((key, d))
    pats = sorted({k[0] for k, _ in uniq})
    v8n = dict(zip(pats, v8_verdicts([(p, "") for p in pats])))
    v8u = dict(zip(pats, v8_verdicts([(p, "u") for p in pats])))
    # flags other than u do not change validity in V8 when they are valid; invalid flags always throw
    fl = sorted({k[1] for k, _ in uniq if k[1] is not None})
    flag_bad = dict(zip(fl, v8_verdicts([("a", f) for f in fl])))
    dis = []
    for k, d in uniq:
        p, f = k
        if None in (v8n[p], v8u[p]):
            dis.append((k, d, None)); continue
        exp = True if (f is not None and flag_bad[f]) else v8_expected(f, v8n[p], v8u[p])
        if d == "panic" or bool(d) != exp:
            dis.append((k, d, exp))
    classes, unknown, nexc = {}, [], 0
    if dis:
        auxs = aux_for([k for k, _, _ in dis])
        for (k, d, v), aux in zip(dis, auxs):
            c = classify_v8_disagreement(k[0], k[1], d, v, aux) if v is not None else None
            if c in V8_ORACLE_EXCEPTIONS:
                nexc += 1           # V8 deviates from the specification here: not counted against the implementation
            elif c is None:
                unknown.append({"pattern": k[0], "flags": k[1], "impl": d, "v8_expected": v, "aux": aux,
                                "signature": signature(k[0])})
            else:
                classes.setdefault(c, []).append({"pattern": k[0], "flags": k[1], "impl": d, "v8_expected": v})
    return len(uniq), classes, unknown, nexc


# the alphabets over which the grammar fragment of coq/Regex/Grammar.v is enumerated
FRAGMENT_ALPHABET = list("a.|()?*+:^$=!<\\dbw/]{},12")
# a smaller alphabet for longer exhaustive enumeration of the quantifier syntax
BRACE_ALPHABET = list("a{},12?()|")

FRAG_NUMS = ["0", "1", "2", "3", "9", "10", "00", "007", "15", "2147483646", "2147483647", "2147483648", "4294967295",
             "4294967296", "9223372036854775806", "9223372036854775807"]
FRAG_ATOMS = ["a", "b", ".", "\\1", "\\2", "\\12", "\\07", "\\8", "(c)", "\\d", "\\D", "\\w", "\\s", "\\n", "\\t", "\\.", "\\$", "\\/", "\\a", "\\-", "\\{", "\\}", "\\]",
              "-", ",", "1", "/", ":", "=", "!", "<", "]", "}", "{", "^", "$", "\\b", "\\B",
              "\\0", "\\00", "\\08", "\\cA", "\\cz", "\\c", "\\c1", "\\c_", "\\x41", "\\xfF", "\\x4", "\\xg", "\\x", "\\u0041", "\\u004",
              "\\u", "\\uD83D\\uDE00", "\\ud83d\\ude00", "\\uD83D", "\\uDE00", "\\uDBFF\\uDC00", "\\uDC00\\uD800", "\\uD800\\u0041",
              "\\uD83D\\u{DE00}", "\\u{41}", "\\u{0041}", "\\u{1F600}", "\\u{10FFFF}", "\\u{110000}", "\\u{00000000041}", "\\u{}",
              "\\u{41", "\\u{g}", "\\u{ffffffffffffffffffff}", "\\k", "\\p", "\\P", "\\_", "\\e", "\\é", "é", "\U0001F600", "\\\U0001F600",
              "c", "x", "u", "0", "D", "8"]
FRAG_QUANTS = ["*", "+", "?", "*?", "+?", "??", "{1}", "{1,}", "{1,2}", "{2,1}", "{,1}", "{}", "{1", "{1,2", "{a}", "{1}?",
               "{0}", "{1 }", "{ 1}", "{1,2}?", "{1}{2}", "{,}", "{1,,2}", "{12,3}", "{3,12}"]


def _frag_quant(rng):
    if rng.random() < 0.6:
        return rng.choice(FRAG_QUANTS)
    a, b = rng.choice(FRAG_NUMS), rng.choice(FRAG_NUMS)
    return rng.choice(["{%s}", "{%s,}", "{%s,%s}", "{%s,%s}?", "{%s", "{%s,%s", "{%s,}?"]).replace("%s", a, 1).replace("%s", b, 1)


def _frag_disj(rng, depth):
    alts = []
    for _ in range(rng.choice([1, 1, 1, 2, 3])):
        out = []
        for _ in range(rng.choice([0, 1, 1, 2, 2, 3, 4])):
            r = rng.random()
            if r < 0.55 or depth <= 0:
                out.append(rng.choice(FRAG_ATOMS))
            else:
                opener = rng.choice(["(", "(", "(?:", "(?:", "(?=", "(?!", "(?<=", "(?<!"])
                out.append(opener + _frag_disj(rng, depth - 1) + (")" if rng.random() < 0.95 else ""))
            if rng.random() < 0.45:
                out.append(_frag_quant(rng))
        alts.append("".join(out))
    return "|".join(alts)


def gen_fragment_structured(rng, n):
    """patterns built from the constructs of the grammar fragment (quantifier syntax emphasised, bounds up to 2^63-1)."""
    return [_frag_disj(rng, rng.choice([0, 1, 2, 2, 3]))[:100] for _ in range(n)]


def model_recognises(strings):
    """extracted recogniser of the grammar fragment:
    [(in_fragment without u, in_fragment with u, recognises without u, recognises with u, in_grammar without u, in_grammar with u)]"""
    out = run_model("regex", "frag", [enc_str(s) for s in strings])
    return [tuple(int(x) != 0 for x in ln.split()[:6]) for ln in out]


def compare_grammar_v8(strs):
    """Grammar.v (through its recogniser, proved sound and complete for `Pattern u`) vs V8 on the given strings, each in
    the modes in which it satisfies in_grammar (the inputs on which Grammar.v is the whole ES2022 grammar; in_fragment,
    the side condition of the agreement theorem with the validator model, is a subset).  Strings on which V8 is known to
    deviate from the specification (quantifier bounds clamped to 2^31-1 before the comparison) are not compared.
    Returns (n_compared, n_accepted, mismatches, stats)."""
    strs = sorted(set(strs))
    nexc = sum(1 for s in strs if _v8_clamped_bounds(s))
    strs = [s for s in strs if not _v8_clamped_bounds(s)]
    rec = model_recognises(strs)
    cn = [(s, r[2]) for s, r in zip(strs, rec) if r[4]]
    cu = [(s, r[3]) for s, r in zip(strs, rec) if r[5]]
    v8n = v8_verdicts([(s, "") for s, _ in cn])
    v8u = v8_verdicts([(s, "u") for s, _ in cu])
    mism = []
    for mode, cases, res in (("", cn, v8n), ("u", cu, v8u)):
        for (s, ok), t in zip(cases, res):
            if t is None or ok != (not t):
                mism.append({"kind": "grammar", "pattern": s, "flags": mode, "recognises": ok, "v8_throws": t})
    for s, r in zip(strs, rec):       # in_fragment implies in_grammar (proved: in_fragment_in_grammar)
        if (r[0] and not r[4]) or (r[1] and not r[5]):
            mism.append({"kind": "grammar", "pattern": s, "flags": "", "in_fragment_outside_in_grammar": True})
    nb = sum(1 for s, _ in cn if "{" in s) + sum(1 for s, _ in cu if "{" in s)
    stats = {"strings": len(strs), "in_grammar_n": len(cn), "in_grammar_u": len(cu),
             "in_fragment_n": sum(1 for r in rec if r[0]), "in_fragment_u": sum(1 for r in rec if r[1]),
             "accepted_n": sum(1 for _, ok in cn if ok), "accepted_u": sum(1 for _, ok in cu if ok), "with_brace": nb,
             "with_class": sum(1 for s, _ in cn if "[" in s) + sum(1 for s, _ in cu if "[" in s), "v8_clamp_excluded": nexc,
             "mode_dependent": sum(1 for s, r in zip(strs, rec) if r[4] and r[5] and r[2] != r[3])}
    return len(cn) + len(cu), stats["accepted_n"] + stats["accepted_u"], mism, stats


# alphabets for the escape syntax: `\\c`, `\\x`, `\\u`, `\\0` with what may follow them
ESCAPE_ALPHABET = list("a\\cxu0{}41Dd?(|)")
SURROGATE_ALPHABET = list("\\uD83dDEcC0A")


# decimal escapes next to capturing and non-capturing groups
BACKREF_ALPHABET = list("a\\(?:)108937|*")
BACKREF_PIECES = ["(a)", "(?:b)", "(?=c)", "(", "\\1", "\\2", "\\3", "\\10", "\\11", "\\0", "\\00", "\\01", "\\07", "\\08", "\\8", "\\9",
                  "\\18", "\\377", "\\400", "\\12", "\\77", "\\78", "a", "*", "{2}", "|", ")", "\\(", "1", "8", "\\1a", "((a))", "(?<=(x))",
                  "\\u0031", "\\c1", "\\9223372036854775807", "\\4294967296", "(?!(y)\\2)"]


def gen_backref_structured(rng, n):
    return ["".join(rng.choice(BACKREF_PIECES) for _ in range(rng.randint(1, 7))) for _ in range(n)]


# character classes
CLASS_ALPHABET = list("a[]^-\\dbc1z(")
CLASS_ATOMS = ["a", "z", "0", "9", "-", "^", "é", "\U0001F600", "\U0001F601", "\\d", "\\w", "\\S", "\\b", "\\B", "\\-", "\\]", "\\c1", "\\c_",
               "\\uD800\\u0041", "\\uDBFF\\uFFFF", "\\uE000", "\\uD83D\\u{41}", "\\uD800", "\\uD83D\\uDE00",
               "\\cA", "\\c", "\\x41", "\\x4", "\\u0041", "\\u{41}", "\\u{1F600}", "\\uD83D\\uDE00", "\\uD83D", "\\uDE00", "\\0", "\\1",
               "\\12", "\\8", "\\00", "\\377", "\\400", "\\k", "[", "(", ")", "{", "\\a", "\\e", "\\q", "\\/", ".", "*", "$", "\\n", "\\r",
               "\\t", "\\f", "\\v", "\\u", "\\_", "\\\\"]


def _frag_class(rng):
    items = []
    for _ in range(rng.randint(0, 4)):
        items.append(rng.choice(CLASS_ATOMS) if rng.random() < 0.5 else rng.choice(CLASS_ATOMS) + "-" + rng.choice(CLASS_ATOMS))
    s = "[" + rng.choice(["", "", "^"]) + "".join(items)
    return s + "]" if rng.random() < 0.92 else s


def gen_class_structured(rng, n):
    pieces = ["a", "(b)", "\\1", "*", "{2}", "|", ")", "(", "]", "-", "\\2"]
    return ["".join(_frag_class(rng) if rng.random() < 0.6 else rng.choice(pieces) for _ in range(rng.randint(1, 3))) for _ in range(n)]


def grammar_strings(tier, rng):
    thorough = tier == "thorough"
    strs = list(gen_exhaustive(4, FRAGMENT_ALPHABET))
    strs += list(gen_exhaustive(6 if thorough else 5, BRACE_ALPHABET))
    strs += list(gen_exhaustive(5 if thorough else 4, ESCAPE_ALPHABET))
    strs += gen_sampled(rng, 400000 if thorough else 50000, 7, FRAGMENT_ALPHABET)
    strs += gen_sampled(rng, 200000 if thorough else 25000, 10, BRACE_ALPHABET)
    strs += gen_sampled(rng, 300000 if thorough else 40000, 8, ESCAPE_ALPHABET)
    strs += gen_sampled(rng, 300000 if thorough else 30000, 12, SURROGATE_ALPHABET)
    strs += gen_sampled(rng, 100000 if thorough else 10000, 6, SURROGATE_ALPHABET)
    strs += gen_fragment_structured(rng, 400000 if thorough else 60000)
    strs += list(gen_exhaustive(5 if thorough else 4, BACKREF_ALPHABET))
    strs += gen_sampled(rng, 300000 if thorough else 40000, 9, BACKREF_ALPHABET)
    strs += gen_backref_structured(rng, 300000 if thorough else 50000)
    strs += list(gen_exhaustive(5 if thorough else 4, CLASS_ALPHABET))
    strs += gen_sampled(rng, 300000 if thorough else 40000, 9, CLASS_ALPHABET)
    strs += gen_class_structured(rng, 400000 if thorough else 80000)
    if thorough:
        strs += list(gen_exhaustive(5, list("a.|()?*+:^$=!<\\dbw/]")))
    return strs


def compare_history(seqs):
    """implementation only: the verdict of each pattern inside a sequence equals its verdict alone."""
    singles = sorted({it for s in seqs for it in s})
    alone = dict(zip(singles, impl_seq([[it] for it in singles])))
    bad = []
    # sequences cut at panics as the model predicts them
    seqs2, _ = _stable_split(seqs, model_seq, lambda m: m[0] in ("panic", "fuel"))
    io = impl_seq(seqs2)
    for s, r in zip(seqs2, io):
        for j, it in enumerate(s):
            a = alone[it]
            exp = a if isinstance(a, tuple) else a[0]
            got = r if isinstance(r, tuple) else r[j]
            if isinstance(r, tuple):
                if j == len(s) - 1 and exp != r:
                    bad.append({"kind": "history", "seq": s, "at": j, "alone": exp, "in_seq": r})
            elif exp != got:
                bad.append({"kind": "history", "seq": s, "at": j, "alone": exp, "in_seq": got})
    return len(seqs2), bad


def compare_all(tier="quick", seed=1):
    """Returns {"counts": {...}, "mismatches": [model != implementation, kind seq|rule|flags]  (must be empty),
    "history": [implementation verdict in a sequence != alone], "dirty": [model from a dirty state != fresh],
    "v8_classes": {class: {"n": k, "witness": {...}}}, "v8_witnesses": {class: [up to 3 smallest]},
    "v8_unclassified": [...], "msgclass_histogram", "samples", "wall_s": t}.  Deterministic for a given (tier, seed).
    V8 oracle exceptions (V8_ORACLE_EXCEPTIONS) are counted in counts["v8_oracle_exceptions"], not reported."""
    t0 = time.time()
    rng = random.Random(seed)
    build_harness("release")
    # regenerate the unicode tables from /repo (written only when they change), rebuild the model, re-extract
    # (a translator failure -- the lookup functions of unicode.rs changed -- is an obligation of the check, not an infrastructure
    #  error: the comparison goes on with the tables generated last)
    sh([sys.executable, os.path.join(ROOT, "translate", "gen_unicode.py")], timeout=120, check=False)
    ok, out = coq_make(["Regex/RuleDecision.vo", "Regex/FragParser.vo"])
    if not ok:
        raise Infra("regex model does not compile:\n" + out[-3000:])
    exe, msg = build_model("regex")
    if exe is None:
        raise Infra("regex model driver does not build:\n" + msg[-3000:])
    thorough = tier == "thorough"
    counts, mism = {}, []

    # ---- pattern sets
    ex = list(gen_exhaustive(4 if thorough else 3))
    sampled = [] if thorough else gen_sampled(rng, 120000, 4)
    sampled += gen_sampled(rng, 60000 if thorough else 15000, 5) + gen_sampled(rng, 20000 if thorough else 5000, 7)
    astral = list(gen_exhaustive(3 if thorough else 2, ALPHABET_ASTRAL)) + gen_sampled(rng, 40000 if thorough else 15000, 4, ALPHABET_ASTRAL)
    structured = gen_structured(rng, 200000 if thorough else 20000) + gen_deep(rng, 3000 if thorough else 500)
    counts["patterns_exhaustive"] = len(ex)
    counts["patterns_sampled"] = len(sampled)
    counts["patterns_astral"] = len(astral)
    counts["patterns_structured"] = len(structured)
    allp = ex + sampled + astral + structured

    # ---- (1) validate_pattern: verdict and message class, both modes, many patterns on one validator
    items = [(p, u) for p in allp for u in (False, True)]
    stats = {}
    n, m = compare_seq(_chunks(items, 64), stats=stats)
    counts["seq_items"] = n; mism += m
    counts["seq_rejected_items"] = stats.get("rejected", 0)
    log("[regex] seq: %d items, %d mismatches, %.1fs" % (n, len(m), time.time() - t0))

    # ---- (2) the rule: RegExp("..", "..") calls in files
    pairs = [(p, f) for p in ex + sampled + astral for f in ("", "u")]
    pairs += [(p, rng.choice(["g", "gi", "y", "s", "d", "imsuy", "v", "uv"])) for p in rng.sample(ex + sampled, min(20000, len(ex)))]
    flag_pool = [gen_flags(rng) for _ in range(400)]
    pairs += [(p, rng.choice(flag_pool)) for p in structured] + [(p, "") for p in structured[:len(structured) // 2]]
    # unknown flags (second argument not a literal): the both-modes rule
    pairs += [(p, None) for p in rng.sample(ex + sampled + astral, min(30000, len(ex))) + structured[:len(structured) // 2]]
    pairs = [(p, f) for p, f in pairs if not has_surrogate(f or "")]
    n, m, flat = compare_rule(_chunks(pairs, 32))
    counts["rule_items"] = n; mism += m
    log("[regex] rule: %d items, %d mismatches, %.1fs" % (n, len(m), time.time() - t0))

    # ---- (3) flags
    fl = sorted(set(list(gen_exhaustive(3, list("dgimsuyvzG"))) + [gen_flags(rng) for _ in range(5000)]
                    + ["".join(p) for k in range(8) for p in itertools.permutations(FLAG_LETTERS, k)][:6000]))
    m = compare_flags(fl)
    counts["flags"] = len(fl); mism += m

    # ---- (4) history: sequences on one validator (model = implementation, and implementation in-sequence = alone)
    seqs = gen_sequences(rng, 20000 if thorough else 2000, pool=structured)
    n, m = compare_seq(seqs)
    counts["sequences"] = len(seqs); counts["sequence_items"] = n; mism += m
    nh, hist = compare_history(seqs)
    # model from a deliberately dirty state = model from a fresh state
    dp = [(p, f) for p, f in rng.sample(pairs, min(len(pairs), 200000 if thorough else 40000))]
    fresh = [r[0] for r in model_rule([[x] for x in dp])]
    dirty = model_dirty(dp)
    dirty_bad = [{"kind": "dirty", "pattern": p, "flags": f, "fresh": a, "dirty": b} for (p, f), a, b in zip(dp, fresh, dirty) if a != b]
    counts["dirty_cases"] = len(dp)
    log("[regex] flags/history/dirty done %.1fs" % (time.time() - t0))

    # ---- (5) debug build (overflow panics) when a debug harness exists or in the thorough tier
    dbg_exe = os.path.join(HARNESS, "target", "debug", "vh")
    if thorough or os.path.exists(dbg_exe):
        digit_heavy = [p for p in structured if _LONG_DEC.search(p) or _LONG_HEX.search(p)][:3000] + structured[:3000]
        n, m = compare_seq(_chunks([(p, u) for p in digit_heavy for u in (False, True)], 16), debug=True, profile="debug")
        counts["debug_seq_items"] = n; mism += m

    # ---- (6) the specification side: V8
    ng, ngok, gm, gstats = compare_grammar_v8(grammar_strings(tier, rng))
    counts["grammar_strings"] = ng; counts["grammar_accepted"] = ngok; counts["grammar_stats"] = gstats
    log("[regex] grammar vs V8: %d comparisons, %d mismatches, %.1fs" % (ng, len(gm), time.time() - t0))
    nv, classes, unknown, nexc = compare_v8(flat)
    counts["v8_compared"] = nv
    counts["v8_oracle_exceptions"] = nexc
    counts["rule_reports"] = sum(1 for _, d in flat if d is True)
    counts["rule_unknown_flags_items"] = sum(1 for (p, f), _ in flat if f is None)
    res = {
        "tier": tier, "seed": seed, "counts": counts, "mismatches": mism, "history": hist, "dirty": dirty_bad,
        "v8_classes": {c: {"n": len(w), "witness": min(w, key=lambda x: (len(x["pattern"]), x["pattern"]))} for c, w in classes.items()},
        "v8_unclassified": unknown, "wall_s": round(time.time() - t0, 1), "grammar_mismatches": gm,
        "v8_witnesses": {c: sorted(w, key=lambda x: (len(x["pattern"]), x["pattern"], x["flags"] or ""))[:3] for c, w in classes.items()},
        "msgclass_histogram": {str(k): v for k, v in sorted(stats.get("msgclass", {}).items())},
        "samples": [{"pattern": p, "flags": f, "impl_reports": d} for (p, f), d in flat[1000:1003]],
    }
    return res


if __name__ == "__main__":
    tier = sys.argv[1] if len(sys.argv) > 1 else "quick"
    seed = int(sys.argv[2]) if len(sys.argv) > 2 else 1
    r = compare_all(tier, seed)
    print(json.dumps({k: v for k, v in r.items() if k not in ("mismatches", "v8_unclassified", "history", "dirty", "v8_witnesses", "grammar_mismatches")},
                     indent=1, ensure_ascii=False))
    for key in ("mismatches", "history", "dirty", "v8_unclassified", "grammar_mismatches"):
        print("%s: %d" % (key, len(r[key])))
        for x in r[key][:15]:
            print("   ", json.dumps(x, ensure_ascii=False)[:400])
    sys.exit(0 if not r["mismatches"] and not r["history"] and not r["dirty"] else 1)
