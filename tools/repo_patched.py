#!/usr/bin/env python3
"""Run a command with a temporary change applied to /repo, under the exclusive repo lock.

    tools/repo_patched.py --patch FILE -- CMD...        apply FILE (git apply), run CMD, undo
    tools/repo_patched.py --without COMMIT -- CMD...    reverse-apply COMMIT's diff, run CMD, undo

The checks started by CMD see VERIF_REPO_LOCK_HELD=1 (they do not try to take the lock again); every other check
waits until /repo is restored (git checkout -- .)."""
import sys, os, subprocess, fcntl
a = sys.argv[1:]
k = a.index("--")
mode, arg, cmd = a[0], a[1], a[k + 1:]
os.makedirs("/verif/work", exist_ok=True)
lock = open("/verif/work/repo.lock", "a")
fcntl.flock(lock, fcntl.LOCK_EX)
if subprocess.run("git -C /repo status --short --untracked-files=no", shell=True, capture_output=True, text=True).stdout.strip():
    print("repo_patched: /repo has uncommitted changes; refusing"); sys.exit(2)
try:
    if mode == "--patch":
        rc = subprocess.run(["git", "-C", "/repo", "apply", os.path.abspath(arg)]).returncode
    else:
        rc = subprocess.run("git -C /repo show %s | git -C /repo apply -R" % arg, shell=True).returncode
    if rc != 0:
        print("repo_patched: the change does not apply"); sys.exit(2)
    env = dict(os.environ, VERIF_REPO_LOCK_HELD="1")
    sys.exit(subprocess.run(cmd, env=env, cwd="/verif").returncode)
finally:
    subprocess.run("git -C /repo checkout -- .", shell=True)
    fcntl.flock(lock, fcntl.LOCK_UN)
