#!/usr/bin/env python3
"""usage: seed_confirm.py <worktree> <n> <PID> [check ids...]
1. confirms the seeded change in the scratch worktree (lib tests still pass; demo fails with the change, passes without),
2. stores it under /verif/seeded/<PID>-<n>/,
3. applies it to /repo, runs the given checks (default: PID), reverts /repo."""
import sys, os, subprocess, json, shutil, time
wt, n, pid = sys.argv[1], sys.argv[2], sys.argv[3]
checks = sys.argv[4:] or [pid]
out = os.path.join(wt, "out", n)
env = dict(os.environ, CARGO_TARGET_DIR=os.path.join(wt, "target"), CARGO_NET_OFFLINE="true", RUST_BACKTRACE="0")

def sh(cmd, cwd=wt, timeout=3000):
    p = subprocess.run(cmd, shell=True, cwd=cwd, env=env, stdout=subprocess.PIPE, stderr=subprocess.STDOUT, text=True, timeout=timeout)
    return p.returncode, p.stdout

def demo():
    if os.path.exists(os.path.join(out, "demo.rs")):
        os.makedirs(os.path.join(wt, "tests"), exist_ok=True)
        shutil.copy(os.path.join(out, "demo.rs"), os.path.join(wt, "tests", "demo.rs"))
        rc, o = sh("cargo test --offline --test demo 2>&1 | tail -15")
        ok = "test result: ok" in o
        os.remove(os.path.join(wt, "tests", "demo.rs"))
        return ok, o[-600:]
    rc, o = sh("bash -c 'set -o pipefail; bash %s 2>&1 | tail -15'" % os.path.join(out, "demo.sh"))
    return rc == 0, o[-600:]

res = {}
sh("git checkout -- . && git clean -fdq tests")
ok0, o0 = demo()
res["demo_without_change_passes"] = ok0
rc, o = sh("git apply %s" % os.path.join(out, "patch.diff"))
assert rc == 0, o
rc, o = sh("cargo test --lib --offline 2>&1 | grep '^test result'")
res["lib_tests_with_change"] = o.strip()
ok1, o1 = demo()
res["demo_with_change_fails"] = not ok1
sh("git checkout -- . && git clean -fdq tests")
print(json.dumps(res, indent=1))
dst = os.path.join("/verif/seeded", "%s-%s%s" % (pid, os.environ.get("SEED_TAG", ""), n))
os.makedirs(dst, exist_ok=True)
for f in os.listdir(out):
    shutil.copy(os.path.join(out, f), dst)
meta = json.load(open(os.path.join(dst, "meta.json")))
meta["confirmed_by_main"] = res
# run my checks against /repo with the patch applied
rc, o = subprocess.run("git -C /repo status --short", shell=True, stdout=subprocess.PIPE, text=True).returncode, None
# /repo is about to be modified: wait until no check is reading it, keep others out until it is restored
import fcntl
os.makedirs("/verif/work", exist_ok=True)
_lock = open("/verif/work/repo.lock", "w")
fcntl.flock(_lock, fcntl.LOCK_EX)
os.environ["VERIF_REPO_LOCK_HELD"] = "1"
rcA, oA = sh("git -C /repo apply %s" % os.path.join(out, "patch.diff"), cwd="/verif")
assert rcA == 0, oA
det = {}
try:
    for c in checks:
        t = time.time()
        p = subprocess.run("./check %s 2>&1 | grep -E 'VIOLATION|KNOWN-FINDING|\\[%s\\]|INFRA' | cut -c1-300" % (c, c), shell=True, cwd="/verif", stdout=subprocess.PIPE, text=True)
        det[c] = {"detected": "VIOLATION" in p.stdout, "output": p.stdout.strip().split("\n")[-6:], "wall_s": round(time.time() - t, 1)}
        print(c, "DETECTED" if det[c]["detected"] else "missed", det[c]["output"][-2:])
finally:
    subprocess.run("git -C /repo checkout -- .", shell=True)
    fcntl.flock(_lock, fcntl.LOCK_UN)
meta["checks_run"] = det
json.dump(meta, open(os.path.join(dst, "meta.json"), "w"), indent=1)
