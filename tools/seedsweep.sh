#!/bin/bash
# usage: tools/seedsweep.sh "C01 C02 ..." "2 3 4"   -> work/seedsweep.log (one line per run)
cd "$(dirname "$0")/.."
mkdir -p work
for s in $2; do for c in $1; do
  out=$(./check $c --seed $s 2>&1 | grep -E "VIOLATION|INFRASTRUCTURE|Traceback|\[$c\]" | cut -c1-220 | tr '\n' '|')
  echo "seed=$s $c :: $out" >> work/seedsweep.log
done; done
echo SWEEP-DONE >> work/seedsweep.log
