#!/bin/bash
cd "$(dirname "$0")/.."
mkdir -p work
for c in $1; do
  s=$(date +%s)
  out=$(./check $c --tier thorough 2>&1 | grep -E "VIOLATION|INFRASTRUCTURE|Traceback|\[$c\]" | cut -c1-200 | tr '\n' '|')
  e=$(date +%s)
  echo "$c $((e-s))s :: $out" >> work/thoroughsweep.log
done
echo THOROUGH-DONE >> work/thoroughsweep.log
