#!/usr/bin/env python3
"""Extracts JS/TS snippets from the string literals of the #[cfg(test)] sections of
/repo/src/rules/*.rs (the repo's own ~4.4k test programs) -> list of source strings."""
import os, re, sys, json

def rust_strings(src):
    out = []
    i, n = 0, len(src)
    while i < n:
        c = src[i]
        if src.startswith("//", i):
            j = src.find("\n", i); i = n if j < 0 else j; continue
        if src.startswith("/*", i):
            j = src.find("*/", i + 2); i = n if j < 0 else j + 2; continue
        if c == "r" and i + 1 < n and src[i + 1] in '#"' and (i == 0 or not (src[i - 1].isalnum() or src[i - 1] == "_")):
            j = i + 1; h = 0
            while j < n and src[j] == "#":
                h += 1; j += 1
            if j < n and src[j] == '"':
                end = src.find('"' + "#" * h, j + 1)
                if end < 0: break
                out.append(src[j + 1:end]); i = end + 1 + h; continue
        if c == '"':
            j = i + 1; buf = []
            while j < n and src[j] != '"':
                if src[j] == "\\":
                    e = src[j + 1]
                    if e == "n": buf.append("\n"); j += 2
                    elif e == "t": buf.append("\t"); j += 2
                    elif e == "r": buf.append("\r"); j += 2
                    elif e == "0": buf.append("\0"); j += 2
                    elif e == "\\": buf.append("\\"); j += 2
                    elif e == '"': buf.append('"'); j += 2
                    elif e == "'": buf.append("'"); j += 2
                    elif e == "x": buf.append(chr(int(src[j + 2:j + 4], 16))); j += 4
                    elif e == "u":
                        k = src.find("}", j); buf.append(chr(int(src[j + 3:k], 16))); j = k + 1
                    elif e == "\n":
                        j += 2
                        while j < n and src[j] in " \t\n\r": j += 1
                    else: buf.append(e); j += 2
                else:
                    buf.append(src[j]); j += 1
            out.append("".join(buf)); i = j + 1; continue
        if c == "'":
            # char literal or lifetime
            m = re.match(r"'(\\.|[^\\'])'", src[i:])
            if m: i += m.end(); continue
        i += 1
    return out

def corpus(repo="/repo"):
    d = os.path.join(repo, "src", "rules")
    seen, out = set(), []
    for fn in sorted(os.listdir(d)):
        if not fn.endswith(".rs"): continue
        src = open(os.path.join(d, fn)).read()
        k = src.find("#[cfg(test)]")
        if k < 0: continue
        for s in rust_strings(src[k:]):
            if len(s) < 3 or s in seen: continue
            if s.startswith("file:///") or s.startswith("https://"): continue
            if "\udc00" <= s[:1] <= "\udfff": continue
            try: s.encode("utf8")
            except UnicodeEncodeError: continue
            seen.add(s); out.append({"rule_file": fn[:-3], "src": s})
    return out

if __name__ == "__main__":
    c = corpus()
    print(len(c), "snippets")
    if len(sys.argv) > 1:
        json.dump(c, open(sys.argv[1], "w"))
