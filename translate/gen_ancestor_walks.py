#!/usr/bin/env python3
"""Regenerates coq/Gen/AncestorWalks.v (+ work/c08-ancestor-walks.json) from /repo/src/**/*.rs and the view code of
the pinned dprint-swc-ext (what deno_ast::view re-exports).

Several rules decide by WALKING UP the tree (`node.parent()` loops, recursive helpers with a `match` / `matches!` on
`ast_view::Node::...`) until they meet a "function boundary".  A walk that enumerates the function-like node kinds
incompletely lets the verdict for an occurrence depend on the code AROUND the function it sits in (C08: embedding in a
neutral context hides / creates a diagnostic).  Table 1 (ancestor_walks) has one row per function of the sources whose
OWN text (nested `fn` items removed, closures kept) contains `.parent()` or `.ancestors()`:

    rule code, qualified function name (impl type . fn . nested fn), the Node kinds its body mentions, the sha1 of its
    normalised text, its purpose (CLASSIFIED below) and whether the text is the one the classification was read from.

Kinds mentioned := identifiers of the view's `enum Node` that occur in the body as `Node::K` / `NodeKind::K`, inside a
turbofish `::<...K>` (`is::<K>()`, `to::<K>()`), or as a tuple pattern `K(` not qualified by another enum (`Expr::Ident(`
is not a mention of the kind Ident).  The signature is not scanned.

CLASSIFIED is the curated part: every walk found on 2026-10-02 was read and is either

    ("function-boundary", category, gaps)   the walk looks for the nearest enclosing function-like construct; every
                                            function-like kind it mentions is an unconditional stop of the walk (ClassProp /
                                            PrivateProp of no-this-before-super: a stop iff the start lies in the
                                            initializer, which is where the chain of the field constructs starts).
                                            `category` names the set of constructs the rule has to stop at (CATEGORIES);
                                            `gaps` are constructs of that set the walk is KNOWN to miss (each a finding
                                            confirmed on the linter, named here and in known_gaps of Traverse/AncestorWalk.v).
    ("other", purpose)                      the walk looks for something else; `purpose` says what.

and is pinned by the sha1 of the text it was read from.  A walk that is new, or whose text changed, is emitted with
aw_pinned = false (and Unclassified if new): the obligation `all_walks_classified_and_pinned` of Traverse/AncestorWalk.v
then fails and so does the translator obligation of ./check C08 -- someone touched an ancestor walk, re-read it.  The Coq
obligation `function_boundary_walks_cover` is evaluated on the kinds found in the CURRENT text in any case.

Table 2 (view_edges etc.): the parent structure of the view, read from the struct / enum definitions of generated.rs:
(field type, owner struct) pairs for the function-like owners, the structs that own a `Function` or a `BlockStmt`, the
payloads of `enum ClassMember` and `enum Prop`.  Traverse/AncestorWalk.v checks its `chain` definitions and the
completeness of its list of function-like kinds against them.

Another source tree can be scanned with `--src DIR` / env ANCESTOR_WALKS_SRC (DIR replaces /repo/src) and the output
redirected with `--out FILE` / env ANCESTOR_WALKS_OUT; used to validate the alarm on a scratch copy.
"""
import glob, hashlib, json, os, re, sys
sys.path.insert(0, os.path.join(os.path.dirname(os.path.abspath(__file__)), "..", "tools"))
sys.path.insert(0, os.path.dirname(os.path.abspath(__file__)))
import lib
from gen_visit_table import strip_rust, cut_tests, match_brace, match_paren, rule_code, coq_str

# ---------------------------------------------------------------------------------------------------------------------
# function-like constructs (names shared with Traverse/AncestorWalk.v: construct_name) and, for messages only, the
# kinds met walking up from inside the construct (the authoritative copy is `chain` in Traverse/AncestorWalk.v)
CHAINS = {
    "fn-decl": ["BlockStmt", "Function", "FnDecl"],
    "fn-expr": ["BlockStmt", "Function", "FnExpr"],
    "arrow-block": ["BlockStmt", "ArrowExpr"],
    "arrow-expr": ["ArrowExpr"],
    "class-method": ["BlockStmt", "Function", "ClassMethod"],
    "class-static-method": ["BlockStmt", "Function", "ClassMethod"],
    "class-getter": ["BlockStmt", "Function", "ClassMethod"],
    "class-setter": ["BlockStmt", "Function", "ClassMethod"],
    "private-method": ["BlockStmt", "Function", "PrivateMethod"],
    "object-method": ["BlockStmt", "Function", "MethodProp"],
    "object-getter": ["BlockStmt", "GetterProp"],
    "object-setter": ["BlockStmt", "SetterProp"],
    "constructor": ["BlockStmt", "Constructor"],
    "static-block": ["BlockStmt", "StaticBlock"],
    "class-field": ["ClassProp"],
    "private-field": ["PrivateProp"],
    "auto-accessor": ["AutoAccessor"],
}
FUNCTION_LIKE = ["FnDecl", "FnExpr", "Function", "ArrowExpr", "ClassMethod", "PrivateMethod", "MethodProp", "GetterProp", "SetterProp",
                 "Constructor", "StaticBlock", "ClassProp", "PrivateProp", "AutoAccessor"]
# the child types the chains of Traverse/AncestorWalk.v talk about (Stmt / Expr: what a body / an initializer holds)
EDGE_CHILDREN = set(FUNCTION_LIKE) | {"BlockStmt", "Stmt", "Expr"}
_METHODS = ["class-method", "class-static-method", "class-getter", "class-setter", "private-method", "object-method"]
CATEGORIES = {
    # every construct that can be `async` (the only places a valid program can hold an `await` below the top level)
    "async": ["fn-decl", "fn-expr", "arrow-block", "arrow-expr", "class-method", "class-static-method", "private-method", "object-method"],
    # every construct whose body is the body of a function of its own ("the nearest enclosing function" questions)
    "function-root": ["fn-decl", "fn-expr", "arrow-block", "arrow-expr"] + _METHODS + ["object-getter", "object-setter", "constructor", "static-block"],
    # every construct that binds its own `this` (arrow functions do not)
    "this": ["fn-decl", "fn-expr"] + _METHODS + ["object-getter", "object-setter", "constructor", "static-block", "class-field", "private-field", "auto-accessor"],
    # every construct that can contain a `return` statement of its own
    "return": ["fn-decl", "fn-expr", "arrow-block"] + _METHODS + ["object-getter", "object-setter", "constructor"],
}

# (file stem, qualified fn) -> (sha1[:12] of the normalised text, classification)
CLASSIFIED = {
    # ------------------------------------------------------------------------------------------ function boundaries
    ("no_await_in_loop", "NoAwaitInLoopHandler.await_expr.inside_loop"):
        ("8b6d8ea69139", ("function-boundary", "async", {})),
    ("no_await_in_sync_fn", "NoAwaitInSyncFnHandler.await_expr.inside_sync_fn"):
        # (finding AW-2 -- the walk escaped constructors, object accessors and static blocks -- was repaired in /repo)
        ("4155a6a210f0", ("function-boundary", "function-root", {})),
    ("no_sync_fn_in_async_fn", "NoSyncFnInAsyncFnHandler.member_expr.inside_async_fn"):
        ("89454707a0e8", ("function-boundary", "function-root", {})),
    ("no_top_level_await", "is_node_inside_function"):
        ("4d8ed5276dd7", ("function-boundary", "async", {})),
    ("no_this_before_super", "SuperCallChecker.node_is_inside_function.inside_function"):
        # (finding AW-1 -- the initializer of an auto-accessor field binds `this` -- was repaired in /repo)
        ("9272f1aa3119", ("function-boundary", "this", {})),
    ("no_setter_return", "NoSetterReturnHandler.return_stmt.inside_setter"):
        ("0662da8dba7e", ("function-boundary", "return", {})),
    ("no_unsafe_finally", "stmt_inside_finally"):
        ("9854189c3b67", ("function-boundary", "return", {})),
    # ------------------------------------------------------------------------------------------ other purposes
    ("camelcase", "pat_in_var_declarator"):
        ("f9b0be05690c", ("other", "is the pattern part of the left-hand side of a variable declarator: climbs through pattern kinds only, any other kind stops the walk")),
    ("explicit_function_return_type", "ExplicitFunctionReturnTypeHandler.function"):
        ("534d3093fa05", ("other", "one step: is the Function the body of a class setter (its direct parent is a ClassMethod of kind Setter)")),
    ("fresh_server_event_handlers", "Visitor.jsx_attr"):
        ("f3c3a1c49755", ("other", "one step: the JSX opening element the attribute belongs to")),
    ("no_console", "NoConsoleHandler.member_expr"):
        ("ae5d20a8a932", ("other", "one step: skip the inner links of a member chain")),
    ("no_deprecated_deno_api", "NoDeprecatedDenoApiHandler.member_expr"):
        ("14eaf6458d67", ("other", "one step: skip the inner links of a member chain")),
    ("no_window_prefix", "NoWindowPrefixHandler.member_expr"):
        ("20d693dd3104", ("other", "one step: skip the inner links of a member chain")),
    ("no_empty", "NoEmptyHandler.block_stmt"):
        ("943656bab4f2", ("other", "one step: an empty block that is the body of a Function / ArrowExpr / Constructor / GetterProp / SetterProp is allowed "
                                  "(re-read after 510b68b; StaticBlock is not listed: an empty `static {}` is reported)")),
    ("no_namespace", "NoNamespaceHandler.ts_module_decl.inside_ambient_context"):
        ("9b3559130b49", ("other", "any enclosing `declare` TsModuleDecl (ambient context is inherited through every construct)")),
    ("no_non_null_assertion", "NoNonNullAssertionHandler.ts_non_null_expr"):
        ("5e287f38c4cf", ("other", "one step: report only the outermost of nested `!` expressions")),
    ("no_var", "NoVarHandler.var_decl"):
        ("b577409ff11b", ("other", "one step: `var` directly inside a namespace block is allowed")),
    ("no_node_globals", "NoNodeGlobalsHandler.ident"):
        ("7fdc5500deb4", ("other", "one step: export alias / intrinsic JSX element name is not a reference")),
    ("no_node_globals", "NoNodeGlobalsHandler.import_decl"):
        ("61ac0d9226b3", ("other", "one step: is the import at the top level of the module")),
    ("no_process_global", "NoProcessGlobalHandler.ident"):
        ("360955d9d5a9", ("other", "one step: export alias / intrinsic JSX element name is not a reference")),
    ("no_process_global", "NoProcessGlobalHandler.import_decl"):
        ("61ac0d9226b3", ("other", "one step: is the import at the top level of the module")),
    ("no_sync_fn_in_async_fn", "NoSyncFnInAsyncFnHandler.member_expr"):
        ("253f137ad376", ("other", "one step: skip the inner links of a member chain")),
    ("prefer_primordials", "PreferPrimordialsHandler.ident.inside_var_decl_lhs_or_member_expr_or_prop_or_type_ref"):
        ("56221838c0a3", ("other", "is the identifier a declared binding name / direct member link / plain property key / type name (finding AW-3 -- any MemberExpr "
                       "ancestor at any distance hid the identifier -- was repaired in /repo: only the DIRECT parent member expression counts)")),
    ("prefer_primordials", "PreferPrimordialsHandler.ident"):
        ("67dbcadd40ee", ("other", "one step: is the identifier the callee of a `new` / call expression")),
    ("prefer_primordials", "PreferPrimordialsHandler.member_expr"):
        ("e4468dd5965a", ("other", "one step: member chain link / callee / assignment target")),
    ("prefer_primordials", "PreferPrimordialsHandler.object_lit.inside_param"):
        ("02f6a414c0d9", ("other", "is the object literal inside a Param -- UNBOUNDED, does not stop at the function the Param belongs to (finding AW-4, cosmetic: "
                       "`function f(a = () => { ({ b = {} } = c); }) {}` is reported as a default PARAMETER)")),
    ("prefer_primordials", "PreferPrimordialsHandler.object_lit"):
        ("fb5d975c1893", ("other", "one step: is the literal the default of a pattern")),
    ("prefer_primordials", "PreferPrimordialsHandler.array_pat"):
        ("23a61562190d", ("other", "one step: what the array pattern destructures")),
    ("prefer_primordials", "PreferPrimordialsHandler.regex"):
        ("37cac4abcc69", ("other", "two steps: a regex literal passed to `new SafeRegExp(...)`")),
}


def norm_text(s):
    return re.sub(r"\s+", " ", s).strip()


def text_hash(s):
    return hashlib.sha1(norm_text(s).encode()).hexdigest()[:12]


# ---------------------------------------------------------------------------------------------------------------------
# the view (dprint-swc-ext, re-exported as deno_ast::view)
def view_source(repo):
    lock = open(os.path.join(repo, "Cargo.lock")).read()
    m = re.search(r'name = "dprint-swc-ext"\s*\nversion = "([^"]+)"', lock)
    if not m:
        return None, None
    c = sorted(glob.glob(os.path.expanduser("~/.cargo/registry/src/*/dprint-swc-ext-%s/src/view/generated.rs" % m.group(1))))
    return (c[0] if c else None), m.group(1)


def parse_view(path):
    """-> (node_kinds, structs {name: [(field, [type idents])]}, enums {name: [(variant, [type idents])]})"""
    src = strip_rust(open(path).read())
    structs, enums = {}, {}
    for m in re.finditer(r"\bpub struct (\w+)<'a>\s*\{", src):
        body = src[m.end():match_brace(src, m.end() - 1)]
        fields = []
        for fm in re.finditer(r"\bpub (\w+)\s*:\s*([^,\n]+),", body):
            if fm.group(1) == "inner":
                continue
            fields.append((fm.group(1), [t for t in re.findall(r"\b[A-Z]\w*\b", fm.group(2)) if t != "Option"]))
        structs[m.group(1)] = fields
    for m in re.finditer(r"\bpub enum (\w+)<'a>\s*\{", src):
        body = src[m.end():match_brace(src, m.end() - 1)]
        enums[m.group(1)] = [(vm.group(1), [t for t in re.findall(r"\b[A-Z]\w*\b", vm.group(2)) if t != "Option"])
                             for vm in re.finditer(r"\b(\w+)\s*\(([^)]*)\)\s*,", body)]
    kinds = [v for v, _ in enums.get("Node", [])]
    return kinds, structs, enums


def expand(t, structs, enums):
    """a field type -> itself plus, if it is an enum, the payload types of its variants (ONE level: BlockStmtOrExpr ->
    BlockStmt, Expr; the big enums Expr / Stmt / Pat stay as they are)"""
    out = {t}
    if t in enums and t != "Node":
        for _, ts in enums[t]:
            out |= set(ts)
    return out


def view_tables(path):
    kinds, structs, enums = parse_view(path)
    owners = sorted(set(FUNCTION_LIKE) | {"BlockStmt"})
    edges = set()
    for p in owners:
        for _, ts in structs.get(p, []):
            for t in ts:
                for u in expand(t, structs, enums):
                    if u in EDGE_CHILDREN:
                        edges.add((u, p))
    fn_owners = sorted(s for s, fs in structs.items() if any("Function" in ts for _, ts in fs))
    block_owners = sorted(s for s, fs in structs.items() if any("BlockStmt" in ts or "BlockStmtOrExpr" in ts for _, ts in fs))
    class_members = sorted({t for _, ts in enums.get("ClassMember", []) for t in ts})
    object_props = sorted({t for _, ts in enums.get("Prop", []) for t in ts})
    return dict(kinds=kinds, edges=sorted(edges), function_owners=fn_owners, block_owners=block_owners,
                class_members=class_members, object_props=object_props)


# ---------------------------------------------------------------------------------------------------------------------
# the walks
def fn_items(src):
    """every `fn name(...) { body }` of the (stripped) source, at any depth: (name, sig_start, body_open, body_close)"""
    out = []
    for fm in re.finditer(r"\bfn\s+(\w+)\s*(?:<[^>(]*>)?\s*\(", src):
        pclose = match_paren(src, fm.end() - 1)
        bopen = src.find("{", pclose)
        semi = src.find(";", pclose)
        if bopen < 0 or (0 <= semi < bopen):
            continue
        out.append((fm.group(1), fm.start(), bopen, match_brace(src, bopen)))
    return out


def impl_blocks(src):
    out = []
    for m in re.finditer(r"\bimpl\b\s*(?:<[^{;]*?>)?\s*(?:[\w:]+(?:<[^{;]*?>)?\s+for\s+)?(\w+)[^{;]*\{", src):
        out.append((m.group(1), m.end() - 1, match_brace(src, m.end() - 1)))
    return out


def mentioned_kinds(body, vocabulary):
    found = set()
    for m in re.finditer(r"\b(?:Node|NodeKind)\s*::\s*(\w+)", body):
        if m.group(1) in vocabulary:
            found.add(m.group(1))
    for m in re.finditer(r"::\s*<\s*&?\s*(?:\w+\s*::\s*)*(\w+)\s*(?:<[^<>]*>)?\s*>", body):
        if m.group(1) in vocabulary:
            found.add(m.group(1))
    for m in re.finditer(r"((?:\b\w+\s*::\s*)*)\b(\w+)\s*\(", body):
        if m.group(2) not in vocabulary:
            continue
        quals = [q.strip() for q in m.group(1).split("::") if q.strip()]
        if quals and quals[-1] not in ("Node", "NodeKind", "ast_view", "view"):
            continue     # Expr::Ident( ... ), Pat::Ident( ... ): a variant of another enum
        if m.start() > 0 and body[:m.start()].rstrip().endswith("."):
            continue     # a method call
        found.add(m.group(2))
    return sorted(found)


def scan_walks(stem, src, vocabulary):
    """src: stripped, tests cut.  -> rows"""
    items = fn_items(src)
    impls = impl_blocks(src)
    rows = []
    for (name, start, bopen, bclose) in items:
        nested = [it for it in items if bopen < it[1] and it[3] <= bclose and it is not None and it[1] != start]
        # own text: signature + body with directly or indirectly nested fn items blanked
        own = src[start:bclose + 1]
        cuts = sorted(((it[1] - start, it[3] + 1 - start, it[0]) for it in nested), reverse=True)
        # drop inner cuts that lie inside an outer cut
        outer_cuts = []
        for c in sorted(cuts):
            if not any(o[0] <= c[0] and c[1] <= o[1] for o in outer_cuts):
                outer_cuts.append(c)
        for a, b, n in sorted(outer_cuts, reverse=True):
            own = own[:a] + "fn %s;" % n + own[b:]
        own_body = own[own.find("{"):]
        if not re.search(r"\.\s*(parent|ancestors)\s*\(\s*\)", own_body):
            continue
        path = [it[0] for it in items if it[2] < start and bclose < it[3]] + [name]
        encl = [t for (t, a, b) in impls if a < start and bclose <= b]
        qual = ".".join(encl[-1:] + path)
        rows.append(dict(file=stem, fn=qual, kinds=mentioned_kinds(own_body, vocabulary), hash=text_hash(own),
                         line=src[:start].count("\n") + 1, steps=len(re.findall(r"\.\s*(?:parent|ancestors)\s*\(\s*\)", own_body))))
    return rows


def classify(rows):
    for r in rows:
        ent = CLASSIFIED.get((r["file"], r["fn"]))
        if ent is None:
            r.update(cls="unclassified", pinned=False, why="NEW ancestor walk, not in CLASSIFIED of translate/gen_ancestor_walks.py")
            continue
        h, c = ent
        r["pinned"] = (h == r["hash"]) or (h == "" and bool(os.environ.get("ANCESTOR_WALKS_ANY_HASH")))
        r["why"] = "" if r["pinned"] else "text changed: sha1 %s != recorded %s -- re-read the walk and update CLASSIFIED" % (r["hash"], h or "<none>")
        if c[0] == "function-boundary":
            cat, gaps = c[1], c[2]
            r.update(cls="function-boundary", category=cat, gaps=dict(gaps), required=[x for x in CATEGORIES[cat] if x not in gaps])
            b = [k for k in r["kinds"] if k in FUNCTION_LIKE]
            r["boundary"] = b
            r["missed"] = [x for x in r["required"] if not any(k in b for k in CHAINS[x])]
            r["stale_gaps"] = sorted(x for x in gaps if any(k in b for k in CHAINS[x]))
        else:
            r.update(cls="other", purpose=c[1])
    return rows


HEADER = """(* GENERATED by translate/gen_ancestor_walks.py from /repo/src/**/*.rs and the view code of dprint-swc-ext %s
   (deno_ast::view) -- do not edit.  What is scanned, what counts as a mention of a kind and the curated, sha1-pinned
   classification of every walk: see the translator. *)
From V Require Import Common.Str.
Open Scope N_scope.

(* FunctionBoundary category required: the walk looks for the nearest enclosing function-like construct; `required` are the names
   (construct_name of Traverse/AncestorWalk.v) of the constructs it has to stop at = the category minus the known gaps *)
Inductive walk_purpose : Type :=
  | FunctionBoundary (category : str) (required : list str)
  | OtherPurpose (purpose : str)
  | Unclassified.
(* aw_kinds: the Node kinds the CURRENT text mentions; aw_pinned: the text is the one the classification was read from *)
Record awalk : Type := mkAW { aw_rule : str; aw_fn : str; aw_kinds : list str; aw_hash : str; aw_purpose : walk_purpose; aw_pinned : bool }.
"""


def coq_strs(l):
    return "[" + "; ".join(coq_str(x) for x in l) + "]"


def cmt(s):
    return s.replace("*)", "* )").replace("(*", "( *")


def generate(repo=None, write=True, src_dir=None, out=None):
    repo = repo or lib.REPO
    src_dir = src_dir or os.environ.get("ANCESTOR_WALKS_SRC") or os.path.join(repo, "src")
    out = out or os.environ.get("ANCESTOR_WALKS_OUT") or os.path.join(lib.COQ, "Gen", "AncestorWalks.v")
    vpath, vver = view_source(repo)
    view = view_tables(vpath) if vpath else dict(kinds=[], edges=[], function_owners=[], block_owners=[], class_members=[], object_props=[])
    vocabulary = set(view["kinds"])
    rows = []
    for dp, dns, fs in os.walk(src_dir):
        dns.sort()
        for f in sorted(fs):
            if not f.endswith(".rs"):
                continue
            p = os.path.join(dp, f)
            rel = os.path.relpath(p, src_dir)
            raw = open(p).read()
            in_rules = os.path.dirname(rel) == "rules"
            stem = f[:-3] if in_rules else rel[:-3]
            code = rule_code(stem, raw) if in_rules else rel
            for r in scan_walks(stem, strip_rust(cut_tests(raw)), vocabulary):
                r["rule"] = code
                rows.append(r)
    rows.sort(key=lambda r: (r["rule"], r["fn"]))
    classify(rows)
    found = {(r["file"], r["fn"]) for r in rows}
    vanished = sorted(k for k in CLASSIFIED if k not in found)
    lines = [HEADER % (vver or "<not found>"), "Definition ancestor_walks : list awalk := ["]
    ents = []
    for r in rows:
        if r["cls"] == "function-boundary":
            purpose = "(FunctionBoundary %s %s)" % (coq_str(r["category"]), coq_strs(r["required"]))
            note = "function boundary, category %s, required: %s%s" % (r["category"], " ".join(r["required"]),
                                                                      "; known gaps: " + ", ".join("%s (%s)" % kv for kv in sorted(r["gaps"].items())) if r["gaps"] else "")
        elif r["cls"] == "other":
            purpose = "(OtherPurpose %s)" % coq_str(r["purpose"][:60])
            note = r["purpose"]
        else:
            purpose, note = "Unclassified", r["why"]
        ents.append("  (* %s  %s  line %d  kinds: %s\n     %s%s *)\n  mkAW %s %s\n    %s %s\n    %s %s" % (
            r["rule"], r["fn"], r["line"], " ".join(r["kinds"]) or "-", cmt(note), ("\n     NOT PINNED: " + cmt(r["why"])) if not r["pinned"] and r["cls"] != "unclassified" else "",
            coq_str(r["rule"]), coq_str(r["fn"]), coq_strs(r["kinds"]), coq_str(r["hash"]), purpose, "true" if r["pinned"] else "false"))
    lines.append(";\n".join(ents))
    lines.append("].\n")
    lines.append("(* classified walks that no longer exist in the sources (a renamed walk shows up as a new one as well): must be empty *)")
    lines.append("Definition vanished_walks : list (str * str) := [%s].\n" % "; ".join("(%s, %s) (* %s %s *)" % (coq_str(a), coq_str(b), a, b) for a, b in vanished))
    lines.append("(* ---- the view: %s *)" % (os.path.relpath(vpath, os.path.expanduser("~")) if vpath else "NOT FOUND"))
    lines.append("Definition view_found : bool := %s.\n" % ("true" if vpath and view["kinds"] else "false"))
    lines.append("(* (type of a child field, enums expanded one level; owner struct) for the function-like owners and BlockStmt, children restricted\n   to the function-like kinds, BlockStmt, Stmt, Expr *)")
    lines.append("Definition view_edges : list (str * str) := [\n%s].\n" % ";\n".join("  (%s, %s) (* %s in %s *)" % (coq_str(a), coq_str(b), a, b) for a, b in view["edges"]))
    for nm, key, what in (("view_function_owners", "function_owners", "structs with a field of type Function"),
                          ("view_block_owners", "block_owners", "structs with a field of type BlockStmt / BlockStmtOrExpr"),
                          ("view_class_members", "class_members", "payload types of enum ClassMember"),
                          ("view_object_props", "object_props", "payload types of enum Prop")):
        lines.append("(* %s: %s *)" % (what, " ".join(view[key])))
        lines.append("Definition %s : list str := %s.\n" % (nm, coq_strs(view[key])))
    text = "\n".join(lines)
    data = dict(walks=rows, vanished=vanished, view_path=vpath, view_version=vver, view={k: v for k, v in view.items() if k != "kinds"},
                n_kinds=len(view["kinds"]), src_dir=src_dir, out=out)
    if write:
        old = open(out).read() if os.path.exists(out) else None
        if old != text:
            with open(out, "w") as f:
                f.write(text)
        if out.startswith(lib.COQ):
            os.makedirs(lib.WORK, exist_ok=True)
            with open(os.path.join(lib.WORK, "c08-ancestor-walks.json"), "w") as f:
                json.dump(data, f, indent=1, sort_keys=True)
    return data


def problems(data):
    """what makes the translator obligation fail, as clear messages"""
    out = []
    if not data["view_path"] or data["n_kinds"] < 100:
        out.append("view source (dprint-swc-ext %s src/view/generated.rs) not found in the cargo registry" % data["view_version"])
    for r in data["walks"]:
        if r["cls"] == "unclassified":
            out.append("NEW ancestor walk %s %s (line %d, kinds %s, sha1 %s): read it and classify it in CLASSIFIED" % (r["rule"], r["fn"], r["line"], r["kinds"], r["hash"]))
        elif not r["pinned"]:
            out.append("ancestor walk %s %s: %s" % (r["rule"], r["fn"], r["why"]))
        if r["cls"] == "function-boundary" and r["missed"]:
            out.append("ancestor walk %s %s (boundary kinds %s) does not stop inside: %s" % (r["rule"], r["fn"], r["boundary"], ", ".join(
                "%s [%s]" % (x, " > ".join(CHAINS[x])) for x in r["missed"])))
    for a, b in data["vanished"]:
        out.append("classified walk %s %s no longer exists (renamed or removed): update CLASSIFIED" % (a, b))
    return out


if __name__ == "__main__":
    args = sys.argv[1:]
    src_dir = args[args.index("--src") + 1] if "--src" in args else None
    out = args[args.index("--out") + 1] if "--out" in args else None
    d = generate(write="--dry" not in args, src_dir=src_dir, out=out)
    for r in d["walks"]:
        print("%-30s %-82s %s %-17s %s" % (r["rule"], r["fn"], r["hash"], r["cls"] + ("" if r["pinned"] else "!"), " ".join(r["kinds"])))
        if r["cls"] == "function-boundary":
            print("%30s boundary: %s | category %s, required: %s | gaps: %s | stale gaps: %s" % ("", " ".join(r["boundary"]), r["category"], " ".join(r["required"]),
                                                                                          r["gaps"] or "-", r["stale_gaps"] or "-"))
    print(len(d["walks"]), "walks;", "view:", d["view_path"], d["n_kinds"], "kinds;", len(d["view"]["edges"]), "edges")
    for k in ("function_owners", "block_owners", "class_members", "object_props"):
        print(k, d["view"][k])
    ps = problems(d)
    for p in ps:
        print("PROBLEM:", p)
    sys.exit(1 if ps else 0)
