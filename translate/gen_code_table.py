#!/usr/bin/env python3
"""Regenerates coq/Gen/CodeTable.v from /repo/src/rules/*.rs (token-level scan, fails closed):
for every rule file: its CODE constant, whether `fn code()` returns it, every `add_diagnostic*` /
`create_diagnostic_details` call site and whether the code argument is the file's own CODE; plus the list of
rule files that read other rules' output (`.diagnostics()`)."""
import os, re, sys, json
sys.path.insert(0, os.path.join(os.path.dirname(os.path.abspath(__file__)), "..", "tools"))
import lib

def coq_str(s):
    return "[" + "; ".join(str(ord(c)) for c in s) + "]"

def strip_comments_and_strings(src):
    out, i, n = [], 0, len(src)
    while i < n:
        if src.startswith("//", i):
            j = src.find("\n", i); i = n if j < 0 else j; continue
        if src.startswith("/*", i):
            j = src.find("*/", i + 2); i = n if j < 0 else j + 2; continue
        c = src[i]
        if c == 'r' and i + 1 < n and src[i + 1] in '#"' and not (i and (src[i - 1].isalnum() or src[i - 1] == '_')):
            j = i + 1; h = 0
            while j < n and src[j] == '#': h += 1; j += 1
            if j < n and src[j] == '"':
                e = src.find('"' + '#' * h, j + 1)
                out.append('""'); i = n if e < 0 else e + 1 + h; continue
        if c == "'":
            m = re.match(r"'(\\.|\\u\{[0-9a-fA-F]+\}|[^\\'])'", src[i:i + 14])
            if m:
                out.append("' '"); i += m.end(); continue
        if c == '"':
            j = i + 1
            while j < n and src[j] != '"':
                j += 2 if src[j] == '\\' else 1
            out.append('"' + src[i + 1:j].replace("(", " ").replace(")", " ").replace(",", " ") + '"'); i = j + 1; continue
        out.append(c); i += 1
    return "".join(out)

def call_args(src, k):
    """src[k] == '(' -> list of top-level argument strings"""
    depth, i, cur, args = 0, k, [], []
    while i < len(src):
        c = src[i]
        if c in "([{":
            depth += 1
            if depth > 1: cur.append(c)
        elif c in ")]}":
            depth -= 1
            if depth == 0:
                a = "".join(cur).strip()
                if a: args.append(a)
                return args
            cur.append(c)
        elif c == "," and depth == 1:
            args.append("".join(cur).strip()); cur = []
        else:
            cur.append(c)
        i += 1
    return None

def scan(path):
    raw = open(path).read()
    mt = list(re.finditer(r"#\[cfg\(test\)\]\s*mod\s+\w+", raw))
    body = raw if not mt else raw[:mt[-1].start()]
    src = strip_comments_and_strings(body)
    m = re.search(r'const\s+CODE\s*:\s*&str\s*=\s*"([^"]*)"', src)
    code = m.group(1) if m else None
    mcode = re.search(r"fn\s+code\s*\(\s*&self\s*\)\s*->\s*&'static\s+str\s*\{\s*([^}]*)\}", src)
    ret = mcode.group(1).strip() if mcode else None
    if code is None and ret and ret.startswith('"'):
        code = ret.strip('"')
    code_fn_ok = ret == "CODE" or (ret is not None and code is not None and ret == '"%s"' % code)
    sites, ok, bad = 0, 0, []
    for m in re.finditer(r"\b(add_diagnostic(?:_with_hint|_with_fixes|_details)?|create_diagnostic_details)\s*\(", src):
        name = m.group(1)
        pre = src[max(0, m.start() - 4):m.start()]
        if re.search(r"fn\s*$", src[max(0, m.start() - 8):m.start()]):
            continue  # a local helper definition
        args = call_args(src, m.end() - 1)
        if args is None:
            sites += 1; bad.append(name + ":unbalanced"); continue
        is_method = src[:m.start()].rstrip().endswith(".")
        if not is_method and re.search(r"fn\s+%s\s*\(" % name, src):
            continue      # a free helper function of this file (its own body is scanned)
        recv = src[max(0, m.start() - 40):m.start()]
        on_context = re.search(r"(context|ctx|cx|c)\s*\.\s*$", recv) is not None
        if is_method and not on_context and re.search(r"fn\s+%s\s*\(\s*&(mut\s+)?self" % name, src):
            continue      # x.add_diagnostic(..) forwarding to a local helper method that is itself scanned
        sites += 1
        if name == "add_diagnostic_details":
            # (maybe_range, details): details must come from create_diagnostic_details(CODE, ..) scanned separately
            ok += 1; continue
        idx = 0 if name == "create_diagnostic_details" else 1
        a = args[idx] if len(args) > idx else None
        if a is not None and (re.fullmatch(r"(Self::)?CODE|CODE\.to_string\(\)|self\.code\(\)", a.replace(" ", "")) or (code is not None and a.strip() == '"%s"' % code)):
            ok += 1
        else:
            bad.append("%s:arg=%s" % (name, a))
    reads = bool(re.search(r"\.\s*diagnostics\s*\(\s*\)", src))
    return {"code": code, "code_fn_ok": bool(code_fn_ok), "sites": sites, "ok": ok, "bad": bad, "reads_diagnostics": reads}

def generate():
    d = os.path.join(lib.REPO, "src", "rules")
    rows = {}
    for fn in sorted(os.listdir(d)):
        if fn.endswith(".rs"):
            rows[fn[:-3]] = scan(os.path.join(d, fn))
    out = ["(* GENERATED by translate/gen_code_table.py from /repo/src/rules/*.rs -- do not edit. *)",
           "From V Require Import Common.Str.", "Open Scope N_scope.", "",
           "(* rule file, CODE, fn code() returns CODE, #diagnostic call sites, #sites whose code argument is CODE, reads ctx.diagnostics() *)",
           "Definition code_table : list (str * str * bool * N * N * bool) := ["]
    lines = []
    for f, r in rows.items():
        lines.append("  (%s, %s, %s, %d, %d, %s)  (* %s: %s %s *)" % (coq_str(f), coq_str(r["code"] or ""), "true" if r["code_fn_ok"] else "false",
                     r["sites"], r["ok"], "true" if r["reads_diagnostics"] else "false", f, r["code"], "; ".join(r["bad"])[:120].replace("*)", "* )")))
    out.append(";\n".join(lines)); out.append("].")
    text = "\n".join(out) + "\n"
    path = os.path.join(lib.COQ, "Gen", "CodeTable.v")
    if not os.path.exists(path) or open(path).read() != text:
        open(path, "w").write(text)
    os.makedirs(lib.WORK, exist_ok=True)
    json.dump(rows, open(os.path.join(lib.WORK, "code_table.json"), "w"), indent=1)
    return rows

if __name__ == "__main__":
    rows = generate()
    for f, r in rows.items():
        if r["bad"] or not r["code_fn_ok"] or r["reads_diagnostics"] or r["sites"] == 0:
            print(f, r)
    print(len(rows), "rule files")
