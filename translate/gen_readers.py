#!/usr/bin/env python3
"""Regenerates coq/Gen/Readers.v from /repo/src/rules/*.rs and /repo/src/swc_util.rs (token-level scan, on every run).

(a) C14 -- for every rule of the property's list: every place where an identifier is compared with one of the rule's GLOBAL
    NAMES (a string literal, a name table, or a call of a helper that compares) and whether the same guard region also
    consults the scope analysis (`scope()` / `.is_global(` / `scope.var(` / `unresolved_ctxt()`).
    Guard region of a comparison: the innermost enclosing `if_chain! { .. }`; else the `if` whose condition contains it
    (condition + body) unless that `if` is an early exit (`return/continue/break`), in which case -- and in every other
    case -- the whole function body.  A comparison inside a helper (a function that is not a Handler/Visit method) that
    is not guarded there is lifted to the helper's call sites.
(b) C20 -- for every rule file: every HashMap/HashSet/BTreeMap/BTreeSet, the kind of its key (position-like, NAME-like:
    Id / Atom / String / &str / JsWord, or other) and whether the container is iterated.

Everything the scan cannot classify is emitted into `*_unknown` (the obligation in Scope/ReaderFacts.v requires these lists to
be empty: fail closed) unless it is listed -- with its justification -- in the allow-lists below.
"""
import json, os, re, sys
sys.path.insert(0, os.path.join(os.path.dirname(os.path.abspath(__file__)), "..", "tools"))
import lib

# ------------------------------------------------------------------------------------------------
# C14 configuration: the global names of each rule (file stem -> ...).  `tables`: constants holding global names.
# `other_tables` / `other_literals`: constants / literals compared with identifiers that are NOT global names (justified).
# ------------------------------------------------------------------------------------------------
C14 = {
    "no_window": {"names": ["window"]},
    "no_window_prefix": {"names": ["window"],
                         "other_tables": {"PROPERTY_DENY_LIST": "property names looked up AFTER the object was found to be the global `window`"}},
    "no_process_global": {"names": ["process"]},
    "no_node_globals": {"tables": ["NODE_GLOBALS"]},
    "no_console": {"names": ["console"]},
    "no_new_symbol": {"names": ["Symbol"]},
    "no_obj_calls": {"names": ["Math", "JSON", "Reflect", "Atomics"]},
    "no_global_assign": {"tables": ["GLOBALS"]},
    "no_deprecated_deno_api": {"names": ["Deno"],
                               "other_literals": {"File": "right-hand side of the qualified type name `Deno.File` (a member name)"}},
    "prefer_primordials": {"tables": ["GLOBAL_TARGETS", "UNSAFE_CONSTRUCTOR_TARGETS", "UNSAFE_FUNCTION_TARGETS"],
                           "other_tables": {"METHOD_TARGETS": "method names (member position)", "GETTER_TARGETS": "getter names (member position)"},
                           "other_literals": {"__proto__": "property key of an object literal"}},
    "no_control_regex": {"names": ["RegExp"]},
    "no_regex_spaces": {"names": ["RegExp"]},
    "no_sync_fn_in_async_fn": {"names": ["Deno"]},
    # helpers shared by the rules above
    "swc_util": {"names": ["RegExp"], "helper_file": True},
}
CONSULT = re.compile(r"\bscope \( \)|\. is_global \(|\bscope \. var \(|\bunresolved_ctxt \( \)")

# C20 configuration
NAME_KEYS = re.compile(r"^(Id|Atom|JsWord|String|& ?(' ?\w+ )?str|&'_ str|Cow < .*str.*>)$")
POSITION_KEYS = re.compile(r"^(SourceRange|ScopeRange|Span|SourcePos|usize|u32|BytePos|MethodToCheck|Box < Expr >)$")
# key types that are neither positions nor plain names, with the reason they are not spelling-keyed *iteration* hazards
# containers declared without a visible key type: (file, container) -> (key type as read by a person, why)
C20_KEY_HINTS = {
    ("adjacent_overload_signatures", "seen_methods"): ("String", "set of `Method` descriptors (method names) filled by insert / queried by contains"),
}
C20_ALLOWED_ITERATION = {
    # (file, container): justification
}


# ------------------------------------------------------------------------------------------------
# a small Rust lexer: identifiers, string literals ("S:<text>"), punctuation; comments and the test module are dropped
# ------------------------------------------------------------------------------------------------
def lex(src):
    k = src.find("#[cfg(test)]")
    if k >= 0:
        src = src[:k]
    toks, i, n, line = [], 0, len(src), 1
    while i < n:
        c = src[i]
        if c == "\n":
            line += 1; i += 1; continue
        if c.isspace():
            i += 1; continue
        if src.startswith("//", i):
            j = src.find("\n", i); i = n if j < 0 else j; continue
        if src.startswith("/*", i):
            j = src.find("*/", i + 2); j = n if j < 0 else j + 2
            line += src.count("\n", i, j); i = j; continue
        if c == "r" and i + 1 < n and src[i + 1] in '#"' and not (i and (src[i - 1].isalnum() or src[i - 1] == "_")):
            j = i + 1; h = 0
            while j < n and src[j] == "#":
                h += 1; j += 1
            if j < n and src[j] == '"':
                e = src.find('"' + "#" * h, j + 1)
                e = n if e < 0 else e
                toks.append(("S:" + src[j + 1:e], line)); line += src.count("\n", i, e); i = e + 1 + h; continue
        if c == '"':
            j = i + 1; buf = []
            while j < n and src[j] != '"':
                if src[j] == "\\":
                    buf.append(src[j:j + 2]); j += 2
                else:
                    buf.append(src[j]); j += 1
            toks.append(("S:" + "".join(buf), line)); line += src.count("\n", i, j); i = j + 1; continue
        if c == "'":
            m = re.match(r"'(\\.|[^\\'])'", src[i:])
            if m:
                toks.append(("C:" + m.group(1), line)); i += m.end(); continue
            m = re.match(r"'[A-Za-z_][A-Za-z0-9_]*", src[i:])
            if m:
                toks.append((m.group(0), line)); i += m.end(); continue
        if c.isalpha() or c == "_":
            m = re.match(r"[A-Za-z_][A-Za-z0-9_]*", src[i:])
            toks.append((m.group(0), line)); i += m.end(); continue
        if c.isdigit():
            m = re.match(r"[0-9][0-9A-Za-z_.]*", src[i:])
            toks.append((m.group(0), line)); i += m.end(); continue
        for op in ("==", "!=", "=>", "->", "::", "&&", "||", "<=", ">="):
            if src.startswith(op, i):
                toks.append((op, line)); i += len(op); break
        else:
            toks.append((c, line)); i += 1
    return toks


OPEN, CLOSE = {"(": ")", "[": "]", "{": "}"}, {")", "]", "}"}


def match_close(toks, i):
    """index of the token closing the bracket opened at i"""
    depth = 0
    for j in range(i, len(toks)):
        t = toks[j][0]
        if t in OPEN:
            depth += 1
        elif t in CLOSE:
            depth -= 1
            if depth == 0:
                return j
    return len(toks) - 1


def functions(toks):
    """[(name, is_handler_method, body_start, body_end, impl_header)] for every `fn` (nested ones too)."""
    impls = []        # (start, end, header text)
    i = 0
    while i < len(toks):
        if toks[i][0] == "impl":
            j = i
            while j < len(toks) and toks[j][0] not in ("{", ";"):
                j += 1
            if j < len(toks) and toks[j][0] == "{":
                impls.append((j, match_close(toks, j), " ".join(t[0] for t in toks[i:j])))
            i = j
        i += 1
    out = []
    for i, (t, _) in enumerate(toks):
        if t == "fn" and i + 1 < len(toks) and re.match(r"[A-Za-z_]", toks[i + 1][0]):
            name = toks[i + 1][0]
            j = i + 2
            depth = 0
            while j < len(toks):
                tj = toks[j][0]
                if tj in ("(", "["):
                    depth += 1
                elif tj in (")", "]"):
                    depth -= 1
                elif tj == "{" and depth == 0:
                    break
                elif tj == ";" and depth == 0:
                    j = None
                    break
                j += 1
            if j is None or j >= len(toks):
                continue
            e = match_close(toks, j)
            hdr = ""
            for (a, b, h) in impls:
                if a < i < b:
                    hdr = h      # innermost wins (later, nested impls are rare)
            is_handler = bool(re.search(r"\b(Handler|Visit|VisitAll|VisitMut)\b.* for ", hdr)) and not any(
                o[2] < i < o[3] for o in out if o[2] < i < o[3])
            sig = " ".join(t[0] for t in toks[i:j])
            out.append((name, is_handler, j, e, hdr, bool(re.search(r"\b(Scope|Context)\b", sig))))
    # a nested fn is not a handler method even inside a Handler impl
    res = []
    for f in out:
        nested = any(g is not f and g[2] < f[2] and f[3] < g[3] for g in out)
        res.append((f[0], f[1] and not nested, f[2], f[3], f[4], nested, f[5]))
    return res


def text(toks, a, b):
    return " ".join(t[0] if not t[0].startswith("S:") else '"%s"' % t[0][2:] for t in toks[a:b + 1])


def region_of(toks, fn, i):
    """(start, end) token range guarding the comparison at i inside function fn=(.., body_start, body_end, ..)."""
    bs, be = fn[2], fn[3]
    best = None
    for k in range(bs, i):
        if toks[k][0] == "if_chain" and k + 2 < len(toks) and toks[k + 1][0] == "!" and toks[k + 2][0] == "{":
            e = match_close(toks, k + 2)
            if k < i < e:
                best = (k, e)           # innermost = last found
    if best:
        return best
    cand = None
    for k in range(bs, i):
        if toks[k][0] == "if" or toks[k][0] == "while":
            j, depth = k + 1, 0
            while j <= be:
                tj = toks[j][0]
                if tj in ("(", "["):
                    depth += 1
                elif tj in (")", "]"):
                    depth -= 1
                elif tj == "{" and depth == 0:
                    break
                j += 1
            if k < i < j:
                e = match_close(toks, j)
                early = toks[j + 1][0] in ("return", "continue", "break") if j + 1 < len(toks) else False
                cand = None if early else (k, e)
    return cand or (bs, be)


def scan_c14(repo):
    sites, unknown, rules = [], [], []
    files = {}
    for stem in C14:
        path = os.path.join(repo, "src", "swc_util.rs" if stem == "swc_util" else os.path.join("rules", stem + ".rs"))
        if not os.path.exists(path):
            unknown.append((stem, "file not found"))
            continue
        src = open(path).read()
        toks = lex(src)
        m = re.search(r'const\s+CODE\s*:\s*&str\s*=\s*"([^"]+)"', src)
        code = m.group(1) if m else stem
        files[stem] = (toks, functions(toks), code)
        if not C14[stem].get("helper_file"):
            rules.append(code)
    # pass 1: direct comparison sites
    helpers = {}      # helper name -> (stem, guarded?) for helpers that compare
    per_file_sites = {}
    for stem, (toks, fns, code) in files.items():
        cfg = C14[stem]
        names = set(cfg.get("names", []))
        tables = set(cfg.get("tables", []))
        other_t = cfg.get("other_tables", {})
        other_l = cfg.get("other_literals", {})
        # token ranges of const/static definitions (tables, messages): literals inside are not comparisons
        defs = []
        for i, (t, _) in enumerate(toks):
            if t in ("const", "static") and i + 1 < len(toks) and re.match(r"[A-Z_][A-Z0-9_]*$", toks[i + 1][0]):
                j = i
                depth = 0
                while j < len(toks):
                    tj = toks[j][0]
                    if tj in OPEN:
                        depth += 1
                    elif tj in CLOSE:
                        depth -= 1
                    elif tj == ";" and depth == 0:
                        break
                    j += 1
                defs.append((i, j, toks[i + 1][0]))
        defined_tables = {d[2] for d in defs if any(toks[k][0].startswith("S:") for k in range(d[0], d[1])) and
                          any(toks[k][0] in ("[", "phf_map", "phf_set") for k in range(d[0], d[1]))}
        found = []
        for i, (t, line) in enumerate(toks):
            if any(a <= i <= b for a, b, _ in defs):
                continue
            what = None
            if t.startswith("S:"):
                lit = t[2:]
                window = " ".join(x[0] for x in toks[max(0, i - 12):i + 3])
                compared = bool(re.search(r"==|!=|matches !", window))
                sym_near = bool(re.search(r"\bsym\b|_symbol\b|\bsym \(", window))
                if lit in names:
                    what = ("literal", lit)
                elif compared and sym_near and lit not in other_l:
                    unknown.append((stem, "line %d: literal \"%s\" compared with an identifier symbol is neither a declared global name nor allow-listed" % (line, lit)))
            elif re.match(r"[A-Z][A-Z0-9_]{2,}$", t) and i + 2 < len(toks) and (
                    (toks[i + 1][0] == "." and toks[i + 2][0] in ("contains", "contains_key", "get", "iter", "binary_search", "into_iter")) or toks[i + 1][0] == "["):
                if t in tables:
                    # an index `TABLE[key]` after a successful membership test is not a new comparison
                    if toks[i + 1][0] == "[":
                        continue
                    what = ("table", t)
                elif t in other_t or t not in defined_tables and t not in ("GLOBALS",):
                    continue
                else:
                    unknown.append((stem, "line %d: name table %s is used but is neither declared as a table of global names nor allow-listed" % (line, t)))
            if not what:
                continue
            inner = None
            for f in fns:
                if f[2] < i < f[3] and (inner is None or f[2] > inner[2]):
                    inner = f
            if inner is None:
                unknown.append((stem, "line %d: comparison with %s outside any function" % (line, what[1])))
                continue
            # the guard region is searched in the outermost enclosing method when the comparison sits in a nested fn
            a, b = region_of(toks, inner, i)
            guarded = bool(CONSULT.search(text(toks, a, b)))
            found.append({"fn": inner[0], "handler": inner[1], "what": what[1], "kind": what[0], "guarded": guarded, "line": line, "sees_scope": inner[6]})
        per_file_sites[stem] = found
        for s in found:
            if not s["handler"]:
                # a helper that receives the Context / Scope is expected to consult it itself: its call sites are not
                # allowed to make up for a missing check by merely passing `ctx.scope()` along
                h = helpers.setdefault(s["fn"], {"stem": stem, "guarded": True, "what": [], "sees_scope": s["sees_scope"]})
                h["guarded"] = h["guarded"] and s["guarded"]
                h["what"].append(s["what"])
    # pass 2: call sites of comparing helpers
    for stem, (toks, fns, code) in files.items():
        if C14[stem].get("helper_file"):
            continue
        for s in per_file_sites[stem]:
            if s["handler"]:
                sites.append((code, s["fn"], s["what"], {"literal": 0, "table": 1}[s["kind"]], s["guarded"], s["line"]))
        for hname, h in helpers.items():
            if h["stem"] not in (stem, "swc_util"):
                continue
            for i, (t, line) in enumerate(toks):
                if t == hname and i + 1 < len(toks) and toks[i + 1][0] == "(" and (i == 0 or toks[i - 1][0] != "fn"):
                    inner = None
                    for f in fns:
                        if f[2] < i < f[3] and (inner is None or f[2] > inner[2]):
                            inner = f
                    if inner is None:
                        unknown.append((stem, "line %d: call of comparing helper %s outside any function" % (line, hname)))
                        continue
                    if inner[0] == hname:
                        continue
                    a, b = region_of(toks, inner, i)
                    guarded = h["guarded"] or (not h["sees_scope"] and bool(CONSULT.search(text(toks, a, b))))
                    if not inner[1]:
                        # helper calling a helper: lift once more is not implemented -> must be guarded here
                        if not guarded:
                            unknown.append((stem, "line %d: unguarded comparing helper %s called from non-handler %s" % (line, hname, inner[0])))
                            continue
                    sites.append((code, inner[0], "call:" + hname, 2, guarded, line))
    return rules, sites, unknown


def split_generic(toks, i):
    """toks[i] == '<': -> (list of top-level comma separated argument texts, index after '>')"""
    depth, args, cur, j = 0, [], [], i
    while j < len(toks):
        t = toks[j][0]
        if t == "<":
            depth += 1
            if depth > 1:
                cur.append(t)
        elif t == ">":
            depth -= 1
            if depth == 0:
                args.append(" ".join(cur)); return args, j + 1
            cur.append(t)
        elif t == "," and depth == 1:
            args.append(" ".join(cur)); cur = []
        elif t == "(":
            cur.append(t)
        else:
            cur.append(t)
        j += 1
    return args, j


def scan_c20(repo, listed):
    d = os.path.join(repo, "src", "rules")
    conts, unknown, rules = [], [], []
    for fn in sorted(os.listdir(d)):
        if not fn.endswith(".rs") or fn == "mod.rs":
            continue
        stem = fn[:-3]
        src = open(os.path.join(d, fn)).read()
        toks = lex(src)
        m = re.search(r'const\s+CODE\s*:\s*&str\s*=\s*"([^"]+)"', src)
        code = m.group(1) if m else stem
        if stem in listed:
            rules.append(code)
        seen = {}
        for i, (t, line) in enumerate(toks):
            if t in ("HashMap", "HashSet", "BTreeMap", "BTreeSet", "IndexMap", "IndexSet", "FxHashMap", "FxHashSet", "AHashMap", "AHashSet"):
                # inside a `use ...;` item
                j = i
                while j >= 0 and toks[j][0] not in (";", "}") and toks[j][0] != "use":
                    j -= 1
                if j >= 0 and toks[j][0] == "use":
                    continue
                if i >= 2 and toks[i - 2][0] == "collections":
                    continue
                # declared name: `name : [& mut] T < K ...` ; `let [mut] name : T<..>` ; `let [mut] name = T :: new ( )`
                name, key = None, None
                j = i - 1
                while j >= 0 and toks[j][0] in ("&", "mut", "'_", "Lazy", "<", "Rc", "RefCell", "Option") or (j >= 0 and toks[j][0].startswith("'")):
                    j -= 1
                if j >= 1 and toks[j][0] == ":" and re.match(r"[A-Za-z_]\w*$", toks[j - 1][0]):
                    name = toks[j - 1][0]
                elif j >= 1 and toks[j][0] == "=" and re.match(r"[A-Za-z_]\w*$", toks[j - 1][0]):
                    name = toks[j - 1][0]
                if i + 1 < len(toks) and toks[i + 1][0] == "<":
                    args, _ = split_generic(toks, i + 1)
                    key = args[0] if args else None
                if name is None:
                    # `-> HashSet<..>` return types, `HashSet::new()` in a struct literal field (`field: HashSet::new()` is caught above)
                    if i and toks[i - 1][0] in ("->", "(", "Self", "="):
                        continue
                    if i + 1 < len(toks) and toks[i + 1][0] == "::":
                        continue
                    unknown.append((stem, "line %d: %s whose variable could not be determined" % (line, t)))
                    continue
                e = seen.setdefault(name, {"type": t, "key": None, "line": line})
                if key and not e["key"]:
                    e["key"] = key
        for name, e in seen.items():
            key = e["key"] or C20_KEY_HINTS.get((stem, name), (None,))[0]
            if key is None:
                unknown.append((stem, "line %d: container `%s` (%s) without a visible key type" % (e["line"], name, e["type"])))
                continue
            kk = 1 if NAME_KEYS.match(key) else 0 if POSITION_KEYS.match(key) else 2
            if kk == 2:
                unknown.append((stem, "line %d: container `%s`: key type `%s` is neither position-like nor name-like" % (e["line"], name, key)))
            tt = " ".join(x[0] for x in toks)
            it = re.search(r"\b%s (\. borrow(_mut)? \( \) )?(\. clone \( \) )?\. (iter|iter_mut|into_iter|keys|values|values_mut|into_keys|into_values|drain|retain|first_key_value|last_key_value|pop_first|pop_last|range) \(" % re.escape(name), tt) \
                or re.search(r"\bfor [^{;]*? in (& )?(mut )?(self \. )?%s\b" % re.escape(name), tt)
            iterated = bool(it) and (stem, name) not in C20_ALLOWED_ITERATION
            conts.append((code, name, e["type"], key, kk, e["type"].startswith("BTree"), iterated))
    return rules, conts, unknown


# ------------------------------------------------------------------------------------------------
def coq_str(s):
    return "[" + "; ".join(str(ord(c)) for c in s) + "]"


def cbool(b):
    return "true" if b else "false"


def generate(repo=None, write=True):
    repo = repo or lib.REPO
    props = {}
    for l in open(os.path.join(lib.ROOT, "properties.jsonl")):
        if l.strip():
            p = json.loads(l)
            props[p["id"]] = p
    c14_listed = [os.path.basename(f)[:-3] for f in props["C14"]["anchors"]["files"] if "/rules/" in f]
    c20_listed = [os.path.basename(f)[:-3] for f in props["C20"]["anchors"]["files"] if "/rules/" in f]
    rules14, sites, unk14 = scan_c14(repo)
    for stem in c14_listed:
        if stem not in C14:
            unk14.append((stem, "rule of the property's list without a C14 configuration in translate/gen_readers.py"))
    rules20, conts, unk20 = scan_c20(repo, c20_listed)
    out = ["(* GENERATED by translate/gen_readers.py from /repo/src/rules/*.rs and /repo/src/swc_util.rs -- do not edit. *)",
           "From V Require Import Common.Str.", "Open Scope N_scope.", "",
           "(* C14: a place where an identifier is compared with a global name of the rule.",
           "   s_kind: 0 = string literal, 1 = name table, 2 = call of a helper that compares;",
           "   s_consults: the same guard region consults the scope analysis / the unresolved syntax context *)",
           "Record site := mkSite { s_rule : str; s_fn : str; s_what : str; s_kind : N; s_consults : bool }.", "",
           "Definition c14_rules : list str := [\n  %s].\n" % ";\n  ".join("%s (* %s *)" % (coq_str(r), r) for r in rules14),
           "Definition c14_sites : list site := ["]
    out.append(";\n".join("  mkSite %s %s %s %d %s  (* %s :: %s :: %s, line %d *)" % (coq_str(r), coq_str(f), coq_str(w), k, cbool(g), r, f, w, ln)
                          for (r, f, w, k, g, ln) in sites))
    out.append("].\n")
    out.append("(* what the scan could not classify (must be empty) *)")
    out.append("Definition c14_unknown : list (str * str) := [%s].\n" % ";\n  ".join("(%s, %s) (* %s: %s *)" % (coq_str(a), coq_str(b), a, b.replace("*)", "* )")) for a, b in unk14))
    out += ["(* C20: hash / tree containers of the rules.  c_keykind: 0 = position-like key, 1 = NAME-like key (Id, Atom, String, &str), 2 = other;",
            "   c_iterated: the container is iterated (iter/keys/values/drain/for .. in) *)",
            "Record container := mkCont { c_rule : str; c_name : str; c_keykind : N; c_ordered : bool; c_iterated : bool }.", "",
            "Definition c20_rules : list str := [\n  %s].\n" % ";\n  ".join("%s (* %s *)" % (coq_str(r), r) for r in rules20),
            "Definition c20_containers : list container := ["]
    out.append(";\n".join("  mkCont %s %s %d %s %s  (* %s :: %s : %s<%s ..> *)" % (coq_str(r), coq_str(n), kk, cbool(o), cbool(it), r, n, ty, key)
                          for (r, n, ty, key, kk, o, it) in conts))
    out.append("].\n")
    out.append("Definition c20_unknown : list (str * str) := [%s].\n" % ";\n  ".join("(%s, %s) (* %s: %s *)" % (coq_str(a), coq_str(b), a, b.replace("*)", "* )")) for a, b in unk20))
    textv = "\n".join(out)
    path = os.path.join(lib.COQ, "Gen", "Readers.v")
    if write:
        old = open(path).read() if os.path.exists(path) else None
        if old != textv:
            with open(path, "w") as f:
                f.write(textv)
    return {"c14_rules": rules14, "c14_sites": sites, "c14_unknown": unk14, "c14_listed": c14_listed,
            "c20_rules": rules20, "c20_containers": conts, "c20_unknown": unk20}


if __name__ == "__main__":
    r = generate(write="--dry" not in sys.argv)
    for s in r["c14_sites"]:
        print("site", s)
    print("c14 unknown", r["c14_unknown"])
    for c in r["c20_containers"]:
        print("cont", c)
    print("c20 unknown", r["c20_unknown"])
