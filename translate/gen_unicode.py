#!/usr/bin/env python3
"""Translate /repo/src/js_regex/unicode.rs into coq/Gen/UnicodeProps.v.

Deterministic; regenerated on every run.  What is translated:
  * LARGE_ID_START_RANGES / LARGE_ID_CONTINUE_RANGES: the base-36 delta strings are decoded exactly as
    `restore_ranges` does (running sum) and paired up as inclusive (min,max) ranges `list (N*N)`.
    The Rust looks a code point up by binary search over the flat vector; the model uses a linear scan
    (`in_ranges`).  Both agree when the ranges are sorted and disjoint, which this script CHECKS (it fails
    otherwise) and which the generated file re-checks by computation (`ranges_sorted_ok`).
  * the property name/value tables (GC_NAME_PATTERN, SC_NAME_PATTERN, GC_VALUE_PATTERNS, SC_VALUE_PATTERNS,
    BIN_PROPERTY_PATTERNS with their es2018/es2019/es2020 parts) as `list (list N)` (code points).
  * `is_valid_unicode_property` / `is_valid_lone_unicode_property` are NOT parsed: their bodies are compared
    against the text this translator was written for (a change makes the script fail) and the ES2022
    specialisation is written out below.
"""
import os, re, sys, hashlib

REPO = os.environ.get("VERIF_REPO", "/repo")
ROOT = os.path.dirname(os.path.dirname(os.path.abspath(__file__)))
SRC = os.path.join(REPO, "src", "js_regex", "unicode.rs")
OUT = os.path.join(ROOT, "coq", "Gen", "UnicodeProps.v")

EXPECTED_FUNCS = r'''
pub fn is_valid_unicode_property(
  version: EcmaVersion,
  name: &str,
  value: &str,
) -> bool {
  if GC_NAME_PATTERN.contains(name)
    && version >= EcmaVersion::Es2018
    && GC_VALUE_PATTERNS.es2018.contains(value)
  {
    true
  } else if SC_NAME_PATTERN.contains(name) {
    (version >= EcmaVersion::Es2018 && SC_VALUE_PATTERNS.es2018.contains(value))
      || (version >= EcmaVersion::Es2019
        && SC_VALUE_PATTERNS.es2019.contains(value))
      || (version >= EcmaVersion::Es2020
        && SC_VALUE_PATTERNS.es2020.contains(value))
  } else {
    false
  }
}

pub fn is_valid_lone_unicode_property(
  version: EcmaVersion,
  value: &str,
) -> bool {
  (version >= EcmaVersion::Es2018
    && BIN_PROPERTY_PATTERNS.es2018.contains(value))
    || (version >= EcmaVersion::Es2019
      && BIN_PROPERTY_PATTERNS.es2019.contains(value))
}

pub fn is_large_id_start(cp: UnicodeChar) -> bool {
  is_in_range(cp, &LARGE_ID_START_RANGES)
}

pub fn is_large_id_continue(cp: UnicodeChar) -> bool {
  is_in_range(cp, &LARGE_ID_CONTINUE_RANGES)
}

fn is_in_range(cp: UnicodeChar, ranges: &[u32]) -> bool {
  let mut l = 0;
  let mut r = ranges.len() / 2;
  while l < r {
    let i = (l + r) / 2;
    let min = ranges[2 * i];
    let max = ranges[2 * i + 1];
    if cp < min {
      r = i;
    } else if cp > max {
      l = i + 1;
    } else {
      return true;
    }
  }
  false
}

fn restore_ranges(data: &str) -> Vec<u32> {
  let mut last = 0;
  data
    .split(' ')
    .map(|s| {
      last += u32::from_str_radix(s, 36).unwrap();
      last
    })
    .collect()
}
'''


def die(msg):
    sys.stderr.write("gen_unicode.py: " + msg + "\n")
    sys.exit(2)


def static_blocks(src):
    """name -> text of `static NAME ... ;` up to the next top-level `static`/`pub fn`/`fn`."""
    out = {}
    ms = list(re.finditer(r"^static\s+([A-Z_0-9]+)\s*:", src, flags=re.M))
    ends = [m.start() for m in ms[1:]]
    fn = re.search(r"^(pub\s+)?fn\s", src, flags=re.M)
    ends.append(fn.start() if fn else len(src))
    for m, e in zip(ms, ends):
        out[m.group(1)] = src[m.start():e]
    return out


def strings_of(text):
    return re.findall(r'"([^"\\]*)"', text)


def versions(block):
    """es2018/es2019/es2020 parts of a PatternVersions literal."""
    res = {}
    pos = [(v, re.search(r"\b%s\s*:" % v, block)) for v in ("es2018", "es2019", "es2020")]
    for v, m in pos:
        if not m:
            die("missing field %s" % v)
    idx = sorted((m.end(), v) for v, m in pos)
    for k, (start, v) in enumerate(idx):
        end = idx[k + 1][0] if k + 1 < len(idx) else len(block)
        part = block[start:end]
        # cut at the next field name
        part = re.split(r"\bes20(?:18|19|20)\s*:", part)[0]
        if re.match(r"\s*HashSet::new\(\)", part):
            res[v] = []
        else:
            res[v] = strings_of(part)
    return res


def ranges(block):
    m = re.search(r'restore_ranges\(\s*"([0-9a-z ]+)"', block)
    if not m:
        die("restore_ranges literal not found")
    last, flat = 0, []
    for tok in m.group(1).split(" "):
        last += int(tok, 36)
        if last >= 1 << 32:
            die("u32 overflow in restore_ranges")
        flat.append(last)
    if len(flat) % 2:
        die("odd number of range bounds")
    rs = [(flat[2 * i], flat[2 * i + 1]) for i in range(len(flat) // 2)]
    prev = -1
    for lo, hi in rs:
        if not (prev < lo <= hi):
            die("ranges not sorted/disjoint: linear scan would differ from the binary search")
        prev = hi
    return rs


def coq_str(s):
    return "[" + ";".join(str(ord(c)) for c in s) + "]"


def coq_strlist(name, items, comment):
    lines = ["(* %s *)" % comment, "Definition %s : list (list N) :=" % name]
    if not items:
        lines.append("  [].")
    else:
        body = [("   %s (* %s *)" % (coq_str(s), s)) for s in items]
        lines.append("  [\n" + ";\n".join(body) + "\n  ].")
    return "\n".join(lines)


def coq_ranges(name, rs, comment):
    lines = ["(* %s *)" % comment, "Definition %s : list (N * N) :=" % name]
    chunks = []
    for i in range(0, len(rs), 8):
        chunks.append("   " + "; ".join("(%d,%d)" % r for r in rs[i:i + 8]))
    lines.append("  [\n" + ";\n".join(chunks) + "\n  ].")
    return "\n".join(lines)


def main():
    src = open(SRC, encoding="utf-8").read()
    tail = src[src.index("pub fn is_valid_unicode_property"):]
    if tail.strip() != EXPECTED_FUNCS.strip():
        die("the functions at the end of unicode.rs changed; update the translator and the ES2022 specialisation")
    b = static_blocks(src)
    need = ["GC_NAME_PATTERN", "SC_NAME_PATTERN", "GC_VALUE_PATTERNS", "SC_VALUE_PATTERNS",
            "BIN_PROPERTY_PATTERNS", "LARGE_ID_START_RANGES", "LARGE_ID_CONTINUE_RANGES"]
    for n in need:
        if n not in b:
            die("static %s not found" % n)
    gc_names = strings_of(b["GC_NAME_PATTERN"])
    sc_names = strings_of(b["SC_NAME_PATTERN"])
    gcv, scv, binp = versions(b["GC_VALUE_PATTERNS"]), versions(b["SC_VALUE_PATTERNS"]), versions(b["BIN_PROPERTY_PATTERNS"])
    ids, idc = ranges(b["LARGE_ID_START_RANGES"]), ranges(b["LARGE_ID_CONTINUE_RANGES"])
    digest = hashlib.sha256(src.encode()).hexdigest()[:16]
    parts = []
    parts.append("(* GENERATED by translate/gen_unicode.py from src/js_regex/unicode.rs (sha256 %s...).  Do not edit.\n"
                 "   Data only: ranges of the two identifier tables and the Unicode property name/value tables,\n"
                 "   with the lookups specialised to EcmaVersion::Es2022 (the version no_invalid_regexp.rs uses). *)" % digest)
    parts.append("From Coq Require Import List NArith Bool.\nFrom V Require Import Common.Str.\nImport ListNotations.\nOpen Scope N_scope.")
    parts.append(coq_ranges("large_id_start_ranges", ids, "LARGE_ID_START_RANGES: %d inclusive ranges" % len(ids)))
    parts.append(coq_ranges("large_id_continue_ranges", idc, "LARGE_ID_CONTINUE_RANGES: %d inclusive ranges" % len(idc)))
    parts.append("""(* is_in_range: the Rust does a binary search; on a sorted list of disjoint ranges it finds a range containing
   cp iff one exists, i.e. iff this linear scan does.  Sortedness is checked by the translator and re-checked below. *)
Definition in_ranges (rs : list (N * N)) (c : N) : bool :=
  existsb (fun r => (fst r <=? c) && (c <=? snd r)) rs.
Fixpoint ranges_sorted (prev : option N) (rs : list (N * N)) : bool :=
  match rs with
  | [] => true
  | (lo, hi) :: r => (match prev with None => true | Some p => p <? lo end) && (lo <=? hi) && ranges_sorted (Some hi) r
  end.
Definition is_large_id_start (c : N) : bool := in_ranges large_id_start_ranges c.
Definition is_large_id_continue (c : N) : bool := in_ranges large_id_continue_ranges c.
Lemma ranges_sorted_ok :
  ranges_sorted None large_id_start_ranges = true /\\ ranges_sorted None large_id_continue_ranges = true.
Proof. split; vm_compute; reflexivity. Qed.
(* every range lies inside the scalar values: above the ASCII block, outside the surrogates, below 0x110000 *)
Definition range_scalar (r : N * N) : bool :=
  (123 <=? fst r) && (fst r <=? snd r) && ((snd r <? 55296) || (57343 <? fst r)) && (snd r <=? 1114111).
Lemma ranges_scalar_ok :
  forallb range_scalar large_id_start_ranges = true /\\ forallb range_scalar large_id_continue_ranges = true.
Proof. split; vm_compute; reflexivity. Qed.""")
    parts.append(coq_strlist("gc_name_pattern", gc_names, "GC_NAME_PATTERN"))
    parts.append(coq_strlist("sc_name_pattern", sc_names, "SC_NAME_PATTERN"))
    for nm, d in (("gc_value", gcv), ("sc_value", scv), ("bin_property", binp)):
        for v in ("es2018", "es2019", "es2020"):
            parts.append(coq_strlist("%s_%s" % (nm, v), d[v], "%s_PATTERNS.%s (%d entries)" % (nm.upper(), v, len(d[v]))))
    parts.append("""(* is_valid_unicode_property(Es2022, name, value) *)
Definition valid_unicode_property (name value : str) : bool :=
  if mem name gc_name_pattern && mem value gc_value_es2018 then true
  else if mem name sc_name_pattern then
    mem value sc_value_es2018 || mem value sc_value_es2019 || mem value sc_value_es2020
  else false.
(* is_valid_lone_unicode_property(Es2022, value) *)
Definition valid_lone_unicode_property (value : str) : bool :=
  mem value bin_property_es2018 || mem value bin_property_es2019.""")
    text = "\n\n".join(parts) + "\n"
    os.makedirs(os.path.dirname(OUT), exist_ok=True)
    old = open(OUT).read() if os.path.exists(OUT) else None
    if old != text:
        tmp = OUT + ".tmp"
        with open(tmp, "w") as f:
            f.write(text)
        os.replace(tmp, OUT)
    print("gen_unicode: %d+%d ranges, gc %d, sc %d/%d/%d, bin %d/%d -> %s%s" % (
        len(ids), len(idc), len(gcv["es2018"]), len(scv["es2018"]), len(scv["es2019"]), len(scv["es2020"]),
        len(binp["es2018"]), len(binp["es2019"]), os.path.relpath(OUT, ROOT), "" if old != text else " (unchanged)"))


if __name__ == "__main__":
    main()
