#!/usr/bin/env python3
"""Regenerates coq/Gen/VisitTable.v (+ work/c08-visit-table.json) from /repo/src/rules/*.rs.

Table 1 (visit_table): for every `impl ... Visit/VisitAll/VisitMut/Fold for X` block of a rule file, every
overridden `fn visit_*` with a classification of its recursion:

  RecAll      the body contains an UNCONDITIONAL `<param>.visit_children_with(self)`: a call on the method's own
              parameter, at the top level of the body (not inside if/match/loop/closure), with no `return` or `?`
              anywhere before it.  (Also accepted: the same call inside the closure handed to
              one of the WRAPPERS below, which were read and run their closure exactly once.)
  RecNone     the body visibly does not recurse: it contains no `visit_children_with`, no `visit_with` and no call of
              any other `.visit_*` method.
  RecUnknown  anything else (conditional recursion, recursion into some fields only, recursion with another visitor,
              recursion inside a loop ...).  The token-level scanner cannot tell; an unknown entry of a rule that is
              claimed context-free makes the Coq obligation fail (closed) ...
  ... unless the (file, visitor, method) triple is in ALLOW below, where each entry was classified by reading the
  code and carries the justification and the sha1 of the normalised body it was read from: if the body changes, the
  entry no longer applies and the method is `RecUnknown` again.  ALLOW can say
      "all"        every child is visited on every path                                  -> RecAll, AllowListed
      "by_design"  some children are skipped on purpose and the skipped part cannot contain a construct of the rule
                   (or skipping it is the rule's specification)                           -> RecByDesign
      "none"       there is a path that skips children which can contain the rule's constructs -> RecNone, AllowListed
                   (no such entry at present: the ones found in round 1 were repaired in /repo)

`noop_visit_type!()` (swc macro: every method for PURE TYPE syntax -- TsType, TsTypeAnn, TsInterfaceDecl,
TsTypeAliasDecl, type parameters ... -- becomes a no-op; enums, namespaces and `as`/`satisfies` expressions are not
affected) is recorded per visitor as the pseudo method "noop_visit_type!" with class RecByDesign: type syntax holds no
expressions or statements (the nesting differential never builds a hole inside a type).

Table 2 (handler_table): every `impl Handler for X` block: which methods call `ctx.stop_traverse()`, whether
`on_exit_node` does (the one place the driver does not consume the flag), whether the file re-enters `.traverse(`.
Plus the list of files outside handler.rs/context.rs that touch `should_stop_traverse`/`assert_traverse_init`.
"""
import hashlib, json, os, re, sys
sys.path.insert(0, os.path.join(os.path.dirname(os.path.abspath(__file__)), "..", "tools"))
import lib

VISIT_TRAITS = r"(?:Visit|VisitAll|VisitMut|Fold|VisitAstPath|VisitMutAstPath|FoldAstPath)"
REC_CALLS = ("visit_children_with", "visit_with", "visit_mut_children_with", "visit_mut_with", "fold_children_with", "fold_with",
             "visit_all_children_with", "visit_all_with", "visit_children_with_ast_path", "visit_with_ast_path")
FULL_CALLS = ("visit_children_with", "visit_mut_children_with", "fold_children_with", "visit_all_children_with")

# Helper methods that take a closure `|a| { ... }` and run it exactly once, unconditionally, with `a` = the visitor
# itself (read: getter_return.rs `visit_getter_or_function`: saves two fields, `op(self)`, restores them).
WRAPPERS = {("getter_return", "visit_getter_or_function")}

# (file, visitor, method) -> (class, sha1 of the normalised body, justification)
ALLOW = {
    # ---- rules claimed context-free
    ("no_dupe_class_members", "NoDupeClassMembersVisitor", "visit_class"):
        ("all", "b25922a9", "class.visit_children_with(&mut ClassVisitor): every child of the class is visited by the sub-visitor, whose own "
                            "visit_class/visit_class_method recurse; duplicates are aggregated into the root visitor afterwards"),
    ("no_dupe_class_members", "ClassVisitor", "visit_class"):
        ("all", "7445a82a", "same as above for a nested class: a fresh ClassVisitor visits all children"),
    ("no_fallthrough", "NoFallthroughVisitor", "visit_switch_cases"):
        ("all", "da984341", "`for case in cases.iter() { case.visit_with(self); ...` -- the visit is the first statement of the loop body, "
                            "before any `continue`, so every SwitchCase (the only children of the slice) is visited"),
    ("no_redeclare", "NoRedeclareVisitor", "visit_fn_decl"):
        ("by_design", "977a20d7", "returns early only for a body-less declaration (TS overload signature), which has no executable children"),
    ("no_redeclare", "NoRedeclareVisitor", "visit_class_prop"):
        ("by_design", "fd76bb54", "visits the computed key and the value; skipped: decorators, type annotation and the non-computed key -- "
                                  "decorators can hold expressions, recorded as an accepted gap of this scope-sensitive rule"),
}


def strip_rust(src):
    """Comments removed (nested block comments), string/char literal contents blanked; same length not required."""
    out, i, n = [], 0, len(src)
    while i < n:
        c = src[i]
        if src.startswith("//", i):
            j = src.find("\n", i)
            i = n if j < 0 else j
            continue
        if src.startswith("/*", i):
            depth, i = 1, i + 2
            while i < n and depth:
                if src.startswith("/*", i):
                    depth += 1; i += 2
                elif src.startswith("*/", i):
                    depth -= 1; i += 2
                else:
                    i += 1
            out.append(" ")
            continue
        if c == "r" and i + 1 < n and src[i + 1] in '#"' and (i == 0 or not (src[i - 1].isalnum() or src[i - 1] == "_")):
            j, h = i + 1, 0
            while j < n and src[j] == "#":
                h += 1; j += 1
            if j < n and src[j] == '"':
                end = src.find('"' + "#" * h, j + 1)
                if end < 0:
                    break
                out.append('""'); i = end + 1 + h
                continue
        if c == '"':
            j = i + 1
            while j < n and src[j] != '"':
                j += 2 if src[j] == "\\" else 1
            out.append('""'); i = j + 1
            continue
        if c == "'":
            m = re.match(r"'(\\.[^']*|[^\\'])'", src[i:])
            if m:
                out.append("' '"); i += m.end()
                continue
        out.append(c); i += 1
    return "".join(out)


def match_brace(s, i):
    """s[i] == '{' -> index of the matching '}'."""
    depth = 0
    for j in range(i, len(s)):
        if s[j] == "{":
            depth += 1
        elif s[j] == "}":
            depth -= 1
            if depth == 0:
                return j
    return len(s) - 1


def match_paren(s, i):
    depth = 0
    for j in range(i, len(s)):
        if s[j] == "(":
            depth += 1
        elif s[j] == ")":
            depth -= 1
            if depth == 0:
                return j
    return len(s) - 1


def norm_body(body):
    return re.sub(r"\s+", " ", body).strip()


def body_hash(body):
    return hashlib.sha1(norm_body(body).encode()).hexdigest()[:8]


def rule_code(stem, src):
    m = re.search(r'const\s+CODE\s*:\s*&(?:\'static\s+)?str\s*=\s*"([^"]+)"', src)
    if m:
        return m.group(1)
    m = re.search(r'fn\s+code\s*\(\s*&self\s*\)\s*->\s*&\'static\s+str\s*\{\s*"([^"]+)"', src)
    if m:
        return m.group(1)
    return stem.replace("_", "-")


# node types without child nodes (swc_ecma_ast): an override has nothing to recurse into
LEAF_METHODS = {"visit_regex", "visit_str", "visit_number", "visit_big_int", "visit_bool", "visit_null", "visit_ident", "visit_ident_name",
                "visit_this_expr", "visit_debugger_stmt", "visit_empty_stmt", "visit_jsx_text", "visit_tpl_element", "visit_private_name",
                "visit_super", "visit_import", "visit_meta_prop_expr", "visit_jsx_empty_expr"}


def classify(stem, body, param):
    """body: text between the braces of the fn (comments/strings stripped). -> (class, reason)"""
    calls = []      # (pos, receiver, method, arg, brace_depth)
    for m in re.finditer(r"\.\s*(%s)\s*\(" % "|".join(REC_CALLS), body):
        close = match_paren(body, m.end() - 1)
        arg = body[m.end():close].strip()
        k = m.start()
        while k > 0 and (body[k - 1].isalnum() or body[k - 1] in "_.&*"):
            k -= 1
        recv = body[k:m.start()].strip().lstrip("&*")
        depth = body[:m.start()].count("{") - body[:m.start()].count("}")
        calls.append((m.start(), recv, m.group(1), arg, depth))
    # any call of another visit method, on self or on anything else (closure parameters, sub-visitors)
    self_calls = [m.group(1) for m in re.finditer(r"\b\w+\s*\.\s*(visit_\w+)\s*\(", body)
                  if (stem, m.group(1)) not in WRAPPERS and m.group(1) not in REC_CALLS]
    if not calls and not self_calls:
        return "none", "no visit_children_with / visit_with / .visit_* call in the body"
    # only `return` and `?` can leave the function before a top-level statement is reached (break/continue cannot skip a
    # statement that is not inside their loop; a `return` inside a closure is counted too: conservative)
    escapes = [m.start() for m in re.finditer(r"\breturn\b|\?\s*[;.)]", body)]
    for pos, recv, meth, arg, depth in calls:
        if meth in FULL_CALLS and recv == param and param not in ("_", "") and not any(e < pos for e in escapes):
            if arg == "self" and depth == 0:
                return "all", "unconditional %s.%s(self)" % (param, meth)
            # inside the closure of a wrapper that runs it exactly once with the visitor itself
            for w in re.finditer(r"\bself\s*\.\s*(\w+)\s*\(\s*\|\s*(\w+)\s*\|\s*\{", body):
                if (stem, w.group(1)) in WRAPPERS and body[:w.start()].count("{") == body[:w.start()].count("}"):
                    cl_open = w.end() - 1
                    cl_close = match_brace(body, cl_open)
                    if cl_open < pos < cl_close and arg == w.group(2) and depth == 1:
                        return "all", "unconditional %s.%s(%s) inside the closure of self.%s (runs its closure once)" % (param, meth, arg, w.group(1))
    return "unknown", "recursion present but not an unconditional <param>.visit_children_with(self): " + \
        "; ".join("%s.%s(%s)@depth%d" % (r or "?", m, a, d) for _, r, m, a, d in calls[:4]) + \
        ("; self." + ",self.".join(self_calls[:4]) if self_calls else "")


def scan_visit_impls(stem, src):
    """-> list of dict(visitor, trait, method, cls, origin, reason, line, hash)"""
    rows = []
    for m in re.finditer(r"\bimpl\b\s*(?:<[^{;]*?>)?\s*(?:[\w:]+::)?(%s)\s+for\s+(\w+)[^{;]*\{" % VISIT_TRAITS, src):
        start = m.end() - 1
        end = match_brace(src, start)
        block = src[start + 1:end]
        visitor, trait = m.group(2), m.group(1)
        if re.search(r"\bnoop_(?:visit|fold|visit_mut)_type\s*!", block):
            rows.append(dict(visitor=visitor, trait=trait, method="noop_visit_type!", cls="by_design", origin="scanned",
                             reason="swc macro: pure type syntax is not descended", line=src[:start].count("\n") + 1, hash=""))
        depth, i = 0, 0
        for fm in re.finditer(r"\bfn\s+((?:visit|fold)_\w+)\s*(?:<[^>]*>)?\s*\(", block):
            if block[:fm.start()].count("{") != block[:fm.start()].count("}"):
                continue   # nested fn
            pclose = match_paren(block, fm.end() - 1)
            params = block[fm.end():pclose]
            parts = [p.strip() for p in params.split(",") if p.strip()]
            param = ""
            if len(parts) >= 2:
                param = parts[1].split(":")[0].strip()
                param = re.sub(r"^(?:mut|ref)\s+", "", param)
            bopen = block.find("{", pclose)
            semi = block.find(";", pclose)
            if bopen < 0 or (0 <= semi < bopen):
                continue
            bclose = match_brace(block, bopen)
            body = block[bopen + 1:bclose]
            cls, reason = classify(stem, body, param)
            if cls == "none" and fm.group(1) in LEAF_METHODS:
                cls, reason = "all", "leaf node type (no child nodes): nothing to recurse into"
            h = body_hash(body)
            origin = "scanned"
            key = (stem, visitor, fm.group(1))
            if cls == "unknown" and key in ALLOW:
                acls, ahash, why = ALLOW[key]
                if ahash == h or (ahash == "" and os.environ.get("C08_ALLOW_ANY_HASH")):
                    cls, origin, reason = acls, "allow", why
                else:
                    reason += " [ALLOW entry present but body hash %s != recorded %s: re-read the method]" % (h, ahash or "<none>")
            rows.append(dict(visitor=visitor, trait=trait, method=fm.group(1), cls=cls, origin=origin, reason=reason,
                             line=src[:start].count("\n") + 1 + block[:fm.start()].count("\n"), hash=h))
    return rows


def scan_handler_impls(stem, src):
    rows = []
    # free functions of the file (outside the rule's entry point) that call `.traverse(`: calling one re-enters the driver
    reentrant_fns = set()
    for fm in re.finditer(r"\bfn\s+(\w+)\s*(?:<[^>]*>)?\s*\(", src):
        if fm.group(1).startswith("lint_program"):
            continue
        pclose = match_paren(src, fm.end() - 1)
        bopen = src.find("{", pclose)
        semi = src.find(";", pclose)
        if bopen < 0 or (0 <= semi < bopen):
            continue
        if re.search(r"\.\s*traverse\s*\(", src[bopen:match_brace(src, bopen)]):
            reentrant_fns.add(fm.group(1))
    for m in re.finditer(r"\bimpl\b\s*(?:<[^{;]*?>)?\s*(?:[\w:]+::)?Handler\s+for\s+(\w+)[^{;]*\{", src):
        start = m.end() - 1
        end = match_brace(src, start)
        block = src[start + 1:end]
        stops, exit_stop = [], False
        for fm in re.finditer(r"\bfn\s+(\w+)\s*(?:<[^>]*>)?\s*\(", block):
            if block[:fm.start()].count("{") != block[:fm.start()].count("}"):
                continue
            pclose = match_paren(block, fm.end() - 1)
            bopen = block.find("{", pclose)
            if bopen < 0:
                continue
            body = block[bopen + 1:match_brace(block, bopen)]
            # stop_traverse directly, or via any helper that receives ctx: a call of a free/assoc function that
            # itself contains stop_traverse is caught by the file-level count below
            if re.search(r"\bstop_traverse\s*\(", body):
                stops.append(fm.group(1))
                if fm.group(1) == "on_exit_node":
                    exit_stop = True
        rows.append(dict(handler=m.group(1), stops=stops, exit_stop=exit_stop,
                         reenters=bool(re.search(r"\.\s*traverse\s*\(", block)) or
                         any(re.search(r"\b%s\s*\(" % re.escape(f), block) for f in reentrant_fns if not re.search(r"\bfn\s+%s\b" % re.escape(f), block))))
    return rows


def coq_str(s):
    return "[" + "; ".join(str(ord(c)) for c in s) + "]"


CLS = {"all": "RecAll", "none": "RecNone", "unknown": "RecUnknown", "by_design": "RecByDesign"}
HEADER = """(* GENERATED by translate/gen_visit_table.py from /repo/src/rules/*.rs -- do not edit.
   Classification rules, wrappers and the commented allow-list: see the translator. *)
From V Require Import Common.Str.
Open Scope N_scope.

Inductive rec_class : Type := RecAll | RecNone | RecUnknown | RecByDesign.
Inductive origin : Type := Scanned | AllowListed.
Record ventry : Type := mkV { v_rule : str; v_visitor : str; v_method : str; v_class : rec_class; v_origin : origin }.
(* one row per `impl Handler for X`: methods that call stop_traverse, whether on_exit_node does, whether the impl re-enters traverse *)
Record hentry : Type := mkH { h_rule : str; h_handler : str; h_stops : list str; h_exit_stop : bool; h_reenters : bool }.
"""


def cut_tests(raw):
    """drop the trailing `#[cfg(test)] mod name { ... }`"""
    m = re.search(r"#\[cfg\(test\)\]\s*mod\s+\w+\s*\{", raw)
    return raw if not m else raw[:m.start()]


def dependency_analyses(repo):
    """The two whole-program analyses rules consult are `Visit` implementations themselves: the control-flow analysis of
    /repo/src/control_flow/mod.rs and the scope analysis of the deno_ast dependency (version from Cargo.lock, source in the
    cargo registry).  Their overrides are recorded under pseudo rule names; a construct hidden from the analysis is hidden
    from every rule that consults it."""
    out = [("control-flow-analysis", "control_flow", os.path.join(repo, "src", "control_flow", "mod.rs"))]
    try:
        lock = open(os.path.join(repo, "Cargo.lock")).read()
        m = re.search(r'name = "deno_ast"\s*\nversion = "([^"]+)"', lock)
        import glob
        c = sorted(glob.glob(os.path.expanduser("~/.cargo/registry/src/*/deno_ast-%s/src/scopes.rs" % m.group(1))))
        if c:
            out.append(("scope-analysis", "scopes", c[0]))
    except Exception:
        pass
    return out


def generate(repo=None, write=True):
    repo = repo or lib.REPO
    d = os.path.join(repo, "src", "rules")
    vis, han, codes, stop_calls_outside_impl = [], [], [], []
    consumers = {"scope-analysis": [], "control-flow-analysis": []}
    for fn in sorted(os.listdir(d)):
        if not fn.endswith(".rs"):
            continue
        stem = fn[:-3]
        raw = open(os.path.join(d, fn)).read()
        src = strip_rust(cut_tests(raw))
        code = rule_code(stem, raw)
        if re.search(r"\.\s*scope\s*\(\s*\)", src):
            consumers["scope-analysis"].append(code)
        if re.search(r"\.\s*control_flow\s*\(\s*\)", src):
            consumers["control-flow-analysis"].append(code)
        codes.append((code, stem))
        for r in scan_visit_impls(stem, src):
            r.update(rule=code, file=stem)
            vis.append(r)
        hrows = scan_handler_impls(stem, src)
        for r in hrows:
            r.update(rule=code, file=stem)
            han.append(r)
        n_stop = len(re.findall(r"\bstop_traverse\s*\(", src))
        if n_stop != sum(1 for _ in re.finditer(r"\bstop_traverse\s*\(", "".join(
                src[m.end():match_brace(src, m.end() - 1)] for m in re.finditer(r"\bimpl\b\s*(?:<[^{;]*?>)?\s*(?:[\w:]+::)?Handler\s+for\s+\w+[^{;]*\{", src)))):
            stop_calls_outside_impl.append(code)
    analyses_found = []
    for name, stem, path in dependency_analyses(repo):
        if not os.path.exists(path):
            continue
        analyses_found.append(name)
        for r in scan_visit_impls(stem, strip_rust(cut_tests(open(path).read()))):
            r.update(rule=name, file=path)
            vis.append(r)
    # who else touches the flag protocol
    flag_touchers = []
    for dp, _, fs in os.walk(os.path.join(repo, "src")):
        for f in fs:
            if not f.endswith(".rs"):
                continue
            p = os.path.join(dp, f)
            rel = os.path.relpath(p, os.path.join(repo, "src"))
            if rel in ("handler.rs", "context.rs"):
                continue
            s = strip_rust(open(p).read())
            if re.search(r"\b(should_stop_traverse|assert_traverse_init)\s*\(", s):
                flag_touchers.append(rel)
    # the driver itself: the shape HandlerTraverse.v models (assert; on_enter; dispatch; if !should_stop {children}; on_exit)
    hs = strip_rust(open(os.path.join(repo, "src", "handler.rs")).read())
    tm = re.search(r"fn\s+traverse\s*<[^{]*\{", hs)
    driver_ok = False
    if tm:
        tb = hs[tm.end() - 1:match_brace(hs, tm.end() - 1)]
        order = [tb.find("ctx.assert_traverse_init()"), tb.find("self.on_enter_node(node, ctx)"), tb.find("match node"),
                 tb.find("if !ctx.should_stop_traverse()"), tb.find("for child in node.children()"), tb.find("self.traverse(child, ctx)"),
                 tb.find("self.on_exit_node(node, ctx)")]
        driver_ok = all(x >= 0 for x in order) and order == sorted(order) and tb.count("should_stop_traverse") == 1 \
            and tb.count("assert_traverse_init") == 1 and tb.count("on_exit_node") == 1 and tb.count("on_enter_node") == 1
    cs = strip_rust(open(os.path.join(repo, "src", "context.rs")).read())
    fm = re.search(r"fn\s+should_stop\s*\(\s*&mut self\s*\)\s*->\s*bool\s*\{", cs)
    flow_ok = False
    if fm:
        fb = norm_body(cs[fm.end():match_brace(cs, fm.end() - 1)])
        flow_ok = fb == "let stop = self.stop_traverse; self.reset(); stop" and \
            re.search(r"fn\s+assert_init\s*\(\s*&self\s*\)\s*\{\s*assert!\(!self\.stop_traverse\);\s*\}", cs) is not None and \
            re.search(r"fn\s+set_stop_traverse\s*\(\s*&mut self\s*\)\s*\{\s*self\.stop_traverse = true;\s*\}", cs) is not None and \
            re.search(r"fn\s+reset\s*\(\s*&mut self\s*\)\s*\{\s*self\.stop_traverse = false;\s*\}", cs) is not None
    out = [HEADER, "Definition visit_table : list ventry := ["]
    rows = []
    for r in vis:
        rows.append("  mkV %s %s %s %s %s  (* %s %s::%s line %d: %s *)" % (
            coq_str(r["rule"]), coq_str(r["visitor"]), coq_str(r["method"]), CLS[r["cls"]],
            "AllowListed" if r["origin"] == "allow" else "Scanned",
            r["rule"], r["visitor"], r["method"], r["line"], r["reason"].replace("*)", "* )").replace("(*", "( *")))
    out.append(";\n".join(rows))
    out.append("].\n")
    out.append("Definition handler_table : list hentry := [")
    rows = []
    for r in han:
        rows.append("  mkH %s %s [%s] %s %s  (* %s %s stops in: %s *)" % (
            coq_str(r["rule"]), coq_str(r["handler"]), "; ".join(coq_str(s) for s in r["stops"]),
            "true" if r["exit_stop"] else "false", "true" if r["reenters"] else "false", r["rule"], r["handler"], ",".join(r["stops"]) or "-"))
    out.append(";\n".join(rows))
    out.append("].\n")
    out.append("(* rules that consult a whole-program analysis which is itself a Visit implementation (rows of visit_table under that name) *)")
    out.append("Definition analysis_consumers : list (str * list str) := [\n  %s].\n" % ";\n  ".join(
        "(%s, [%s])  (* %s: %s *)" % (coq_str(a), "; ".join(coq_str(c) for c in cs), a, ", ".join(cs)) for a, cs in sorted(consumers.items())))
    out.append("(* rule files (code of the rule defined in each file of src/rules) *)")
    out.append("Definition rule_files : list str := [\n  %s].\n" % ";\n  ".join("%s (* %s *)" % (coq_str(c), c) for c, _ in codes))
    out.append("(* rules with a stop_traverse call outside any `impl Handler` block (helper functions): must be empty *)")
    out.append("Definition stop_calls_outside_handler_impls : list str := [%s].\n" % "; ".join(coq_str(c) for c in stop_calls_outside_impl))
    out.append("(* files other than handler.rs / context.rs that call should_stop_traverse / assert_traverse_init: must be empty *)")
    out.append("Definition flag_protocol_users_outside_driver : list str := [%s].\n" % "; ".join(coq_str(c) for c in flag_touchers))
    out.append("(* the text of Traverse::traverse has the modelled shape: assert; on_enter; dispatch; if !should_stop { children }; on_exit *)")
    out.append("Definition driver_shape_as_modelled : bool := %s." % ("true" if driver_ok else "false"))
    out.append("(* TraverseFlow: should_stop reads then resets; assert_init asserts !flag; set sets; reset clears *)")
    out.append("Definition traverse_flow_as_modelled : bool := %s.\n" % ("true" if flow_ok else "false"))
    text = "\n".join(out)
    data = {"analysis_consumers": consumers, "analyses_found": analyses_found, "visit_table": vis, "handler_table": han, "rule_files": codes, "stop_calls_outside_handler_impls": stop_calls_outside_impl,
            "flag_protocol_users_outside_driver": flag_touchers, "driver_shape_as_modelled": driver_ok, "traverse_flow_as_modelled": flow_ok}
    if write:
        path = os.path.join(lib.COQ, "Gen", "VisitTable.v")
        old = open(path).read() if os.path.exists(path) else None
        if old != text:
            with open(path, "w") as f:
                f.write(text)
        os.makedirs(lib.WORK, exist_ok=True)
        with open(os.path.join(lib.WORK, "c08-visit-table.json"), "w") as f:
            json.dump(data, f, indent=1)
    return data


if __name__ == "__main__":
    d = generate(write="--dry" not in sys.argv)
    for r in d["visit_table"]:
        print("%-28s %-28s %-32s %-10s %-7s %s %s" % (r["rule"], r["visitor"], r["method"], r["cls"], r["origin"], r["hash"], r["reason"][:110]))
    print(len(d["visit_table"]), "visit overrides;", len(d["handler_table"]), "Handler impls;",
          "stoppers:", [(r["rule"], r["handler"], r["stops"]) for r in d["handler_table"] if r["stops"]])
    print("driver shape ok:", d["driver_shape_as_modelled"], "flow ok:", d["traverse_flow_as_modelled"],
          "outside:", d["stop_calls_outside_handler_impls"], d["flag_protocol_users_outside_driver"])
